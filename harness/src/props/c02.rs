//! C02 Finalized transactions are valid, exact, and safe against an altered reply.
//! C11 Payment proofs are sound end to end (same machinery, proof always requested).

use crate::util::*;
use crate::world::*;
use ed25519_dalek::{Signer, Verifier};
use grin_core::core::transaction::Weighting;
use grin_core::core::{Committed, FeeFields, Transaction};
use grin_core::libtx::build;
use grin_core::libtx::proof::ProofBuilder;
use grin_core::libtx::tx_fee;
use grin_core::ser as gser;
use grin_keychain::{ExtKeychain, Keychain, SwitchCommitmentType};
use grin_util::secp::key::SecretKey;
use grin_util::secp::pedersen::Commitment;
use grin_util::ToHex;
use grin_wallet_libwallet as libwallet;
use grin_wallet_libwallet::api_impl::owner;
use grin_wallet_libwallet::{Context, InitTxArgs, IssueInvoiceTxArgs, OutputStatus, PaymentProof, Slate, SlateState, SlatepackAddress};
use serde_json::{json, Value};
use std::collections::BTreeSet;

#[derive(Clone, Copy, Debug, PartialEq)]
enum Flow {
	Send,
	LateLock,
	SelfSend,
	Invoice,
}

struct Pending {
	flow: Flow,
	/// wallet that finalizes
	fin: usize,
	id: uuid::Uuid,
	honest_reply: Slate,
	/// what the initiator sent (carries the initiator's public data), for attacker-level replies
	first: Option<Slate>,
	/// facts fixed at initiation
	amount: u64,
	fee: u64,
	input_commits: BTreeSet<String>,
	change_commits: BTreeSet<String>,
	/// outputs the finalizing wallet itself recorded for this transaction (invoicer's output)
	finalizer_outputs: BTreeSet<String>,
	proof_recipient: Option<SlatepackAddress>,
	sender_address: Option<ed25519_dalek::PublicKey>,
	pre_spendable: u64,
}

fn commits_of(kc: &ExtKeychain, ids: &[(grin_keychain::Identifier, Option<u64>, u64)]) -> BTreeSet<String> {
	ids.iter().map(|(id, _, v)| kc.commit(*v, id, SwitchCommitmentType::Regular).unwrap().to_hex()).collect()
}

fn fund(w: &mut World) {
	for i in 0..2 {
		let mut guard = 0;
		while (w.wallets[i].info(true, 1).map(|x| x.1.amount_currently_spendable).unwrap_or(0) < 150_000_000_000
			|| w.wallets[i].all_outputs().map(|o| o.iter().filter(|o| o.eligible_to_spend(w.node.chain().head().unwrap().height, 1)).count()).unwrap_or(0) < 4)
			&& guard < 14
		{
			let _ = w.mine(Some(i), true);
			guard += 1;
		}
	}
}

fn cleanup(w: &mut World) {
	for i in 0..2 {
		if let Ok(txs) = w.wallets[i].all_txs() {
			for t in txs {
				if !t.confirmed && (t.tx_type == libwallet::TxLogEntryType::TxSent || t.tx_type == libwallet::TxLogEntryType::TxReceived) {
					let _ = w.wallets[i].cancel(Some(t.id), None);
				}
			}
		}
	}
}

/// create a pending transaction up to (and excluding) finalization
fn make_pending(w: &mut World, rng: &mut Rng, flow: Flow, with_proof: bool) -> Result<Pending, String> {
	fund(w);
	let amount = 1_000_000_000 + rng.below(20_000_000_000);
	let pre_spendable = w.wallets[0].info(true, 1).map(|i| i.1.amount_currently_spendable).map_err(|e| format!("{:?}", e))?;
	let recipient_addr = owner::get_slatepack_address(w.wallets[1].inst.clone(), None, 0).map_err(|e| format!("{:?}", e))?;
	let self_addr = owner::get_slatepack_address(w.wallets[0].inst.clone(), None, 0).map_err(|e| format!("{:?}", e))?;
	let proof_addr = if with_proof && flow != Flow::Invoice { Some(if flow == Flow::SelfSend { self_addr.clone() } else { recipient_addr.clone() }) } else { None };
	let args = InitTxArgs {
		amount,
		minimum_confirmations: 1,
		num_change_outputs: 1 + rng.below(3) as u32,
		selection_strategy_is_use_all: false,
		late_lock: Some(flow == Flow::LateLock),
		payment_proof_recipient_address: proof_addr.clone(),
		ttl_blocks: if rng.chance(1, 4) { Some(50) } else { None },
		amount_includes_fee: if flow == Flow::Send && rng.chance(1, 4) { Some(true) } else { None },
		..Default::default()
	};
	let e = |x: libwallet::Error| format!("{:?}", x);
	let kc0 = w.wallets[0].keychain();
	match flow {
		Flow::Send | Flow::LateLock | Flow::SelfSend => {
			let s1 = w.wallets[0].init_send(args).map_err(e)?;
			if flow != Flow::LateLock {
				w.wallets[0].lock_outputs(&s1).map_err(e)?;
			}
			let rcv = if flow == Flow::SelfSend { 0 } else { 1 };
			let s2 = w.wallets[rcv].receive(&s1, None).map_err(e)?;
			let ctx: Context = w.wallets[0].context(&s1.id).map_err(e)?;
			Ok(Pending {
				flow,
				fin: 0,
				id: s1.id,
				honest_reply: s2,
				first: Some(s1.clone()),
				amount: ctx.amount,
				fee: ctx.fee.map(|f| f.fee()).unwrap_or(0),
				input_commits: commits_of(&kc0, &ctx.input_ids),
				change_commits: commits_of(&kc0, &ctx.output_ids),
				finalizer_outputs: BTreeSet::new(),
				proof_recipient: proof_addr,
				sender_address: s1.payment_proof.as_ref().map(|p| p.sender_address),
				pre_spendable,
			})
		}
		Flow::Invoice => {
			// wallet 1 invoices, wallet 0 pays; wallet 1 finalizes
			let s1 = w.wallets[1].issue_invoice(IssueInvoiceTxArgs { amount, ..Default::default() }).map_err(e)?;
			let mut a2 = args.clone();
			a2.payment_proof_recipient_address = None;
			a2.amount_includes_fee = None;
			a2.late_lock = None;
			let s2 = w.wallets[0].process_invoice(&s1, a2).map_err(e)?;
			w.wallets[0].lock_outputs(&s2).map_err(e)?;
			let ctx: Context = w.wallets[0].context(&s1.id).map_err(e)?;
			Ok(Pending {
				flow,
				fin: 1,
				id: s1.id,
				honest_reply: s2,
				first: None,
				amount,
				fee: ctx.fee.map(|f| f.fee()).unwrap_or(0),
				input_commits: commits_of(&kc0, &ctx.input_ids),
				change_commits: commits_of(&kc0, &ctx.output_ids),
				finalizer_outputs: {
					let kc1 = w.wallets[1].keychain();
					w.wallets[1].context(&s1.id).map(|c| commits_of(&kc1, &c.output_ids)).unwrap_or_default()
				},
				proof_recipient: None,
				sender_address: None,
				pre_spendable,
			})
		}
	}
}

type Mutant = (String, Slate);

fn flip_sig(s: &grin_util::secp::Signature) -> grin_util::secp::Signature {
	let mut raw = s.to_raw_data();
	raw[5] ^= 0x10;
	grin_util::secp::Signature::from_raw_data(&raw).unwrap()
}

/// field-level and attacker-level alterations of the reply
fn mutants(w: &World, p: &Pending, rng: &mut Rng, other_reply: Option<&Slate>, proof_focus: bool) -> Vec<Mutant> {
	let r = &p.honest_reply;
	let mut v: Vec<Mutant> = vec![];
	let mut m = |name: &str, f: &dyn Fn(&mut Slate)| {
		let mut s = r.clone();
		f(&mut s);
		v.push((name.to_string(), s));
	};
	if !proof_focus {
		m("amount=1", &|s| s.amount = 1);
		m("amount=agreed+1", &|s| s.amount = p.amount + 1);
		m("amount=max", &|s| s.amount = u64::MAX);
		m("fee=other", &|s| s.fee_fields = FeeFields::new(0, p.fee + 1_000_000).unwrap());
		m("fee=half", &|s| s.fee_fields = FeeFields::new(0, std::cmp::max(p.fee / 2, 1)).unwrap());
		m("fee=shifted", &|s| s.fee_fields = FeeFields::new(3, std::cmp::max(p.fee, 1)).unwrap());
		m("ttl=1(expired)", &|s| s.ttl_cutoff_height = 1);
		m("ttl=far", &|s| s.ttl_cutoff_height = 1_000_000);
		m("offset=random", &|s| s.offset = grin_keychain::BlindingFactor::from_slice(&[7u8; 32]));
		m("offset=zero", &|s| s.offset = grin_keychain::BlindingFactor::zero());
		m("id=other", &|s| s.id = uuid::Uuid::from_slice(&[3u8; 16]).unwrap());
		for st in [SlateState::Unknown, SlateState::Standard1, SlateState::Standard2, SlateState::Standard3, SlateState::Invoice1, SlateState::Invoice2, SlateState::Invoice3].iter() {
			if *st != r.state {
				let st2 = st.clone();
				m(&format!("state={}", st), &move |s| s.state = st2.clone());
			}
		}
		for n in [0u8, 1, 3, 255].iter() {
			let n2 = *n;
			m(&format!("num_participants={}", n), &move |s| s.num_participants = n2);
		}
		m("version=3", &|s| s.version_info.version = 3);
		m("kernel_features=1", &|s| s.kernel_features = 1);
		// participant data
		let np = r.participant_data.len();
		for i in 0..np {
			m(&format!("part[{}].sig=flipped", i), &move |s| {
				if let Some(sig) = s.participant_data[i].part_sig {
					s.participant_data[i].part_sig = Some(flip_sig(&sig));
				}
			});
			m(&format!("part[{}].sig=none", i), &move |s| s.participant_data[i].part_sig = None);
			m(&format!("part[{}].nonce<->excess", i), &move |s| {
				let pd = &mut s.participant_data[i];
				std::mem::swap(&mut pd.public_nonce, &mut pd.public_blind_excess);
			});
			m(&format!("part[{}] duplicated", i), &move |s| {
				let c = s.participant_data[i].clone();
				s.participant_data.push(c);
			});
			m(&format!("part[{}] dropped", i), &move |s| {
				s.participant_data.remove(i);
			});
			if let Some(o) = other_reply {
				if let Some(op) = o.participant_data.get(0) {
					let op2 = op.clone();
					let op3 = op.clone();
					let op4 = op.clone();
					m(&format!("part[{}].excess=from-other-slate", i), &move |s| s.participant_data[i].public_blind_excess = op2.public_blind_excess);
					m(&format!("part[{}].nonce=from-other-slate", i), &move |s| s.participant_data[i].public_nonce = op3.public_nonce);
					m(&format!("part[{}]=other-slate's", i), &move |s| s.participant_data[i] = op4.clone());
				}
			}
		}
		// commitments
		let tx_of = |s: &Slate| s.tx.clone().unwrap_or_else(Slate::empty_transaction);
		let outs = tx_of(r).outputs().to_vec();
		if !outs.is_empty() {
			m("tx.outputs=none", &|s| {
				let t = tx_of(s);
				s.tx = Some(Transaction { body: t.body.clone().replace_outputs(&[]), ..t });
			});
			m("tx.output duplicated", &|s| {
				let t = tx_of(s);
				let mut o = t.outputs().to_vec();
				o.push(o[0]);
				s.tx = Some(Transaction { body: t.body.clone().replace_outputs(&o), ..t });
			});
			if let Some(o2) = other_reply.and_then(|o| o.tx.as_ref()).map(|t| t.outputs().to_vec()) {
				if !o2.is_empty() {
					let o2a = o2.clone();
					m("tx.output=other slate's output", &move |s| {
						let t = tx_of(s);
						s.tx = Some(Transaction { body: t.body.clone().replace_outputs(&o2a), ..t });
					});
					let o2b = o2.clone();
					m("tx.output+=other slate's output", &move |s| {
						let t = tx_of(s);
						let mut o = t.outputs().to_vec();
						o.extend(o2b.iter().cloned());
						s.tx = Some(Transaction { body: t.body.clone().replace_outputs(&o), ..t });
					});
					let o2c = o2.clone();
					m("tx.output proof swapped", &move |s| {
						let t = tx_of(s);
						let o: Vec<_> = t.outputs().iter().map(|x| grin_core::core::Output::new(x.features(), x.commitment(), o2c[0].proof())).collect();
						s.tx = Some(Transaction { body: t.body.clone().replace_outputs(&o), ..t });
					});
				}
			}
		}
		m("tx=none", &|s| s.tx = None);
		// attacker-level: a recipient that re-signs consistently with its own choices
		let kc = ExtKeychain::from_seed(&[0x66u8; 32], true).unwrap();
		for (name, amt_delta, fee_delta, extra, keep) in [
			("attacker: larger output, consistent signature", 1_000i64, 0i64, false, false),
			("attacker: smaller output", -1_000, 0, false, false),
			("attacker: signs a lower fee", 0, -1_000_000, false, false),
			("attacker: extra output", 0, 0, true, false),
			("attacker: amount split over two outputs, balanced and re-signed (fee below the minimum for the weight)", 0, 0, false, false),
			("attacker: higher fee taken from the amount, fee and amount left in the reply", -7_000_000, 7_000_000, false, true),
			("attacker: lower fee added to the amount, fee and amount left in the reply", 2_000_000, -2_000_000, false, true),
			("attacker: higher fee taken from the amount, only the fee left in the reply", -7_000_000, 7_000_000, false, true),
			("attacker+planted-receive: higher fee taken from the amount, fee and amount left in the reply, state switched to Invoice2", -7_000_000, 7_000_000, false, true),
			("attacker+planted-receive: lower fee added to the amount, fee and amount left in the reply, state switched to Invoice2", 2_000_000, -2_000_000, false, true),
		]
		.iter()
		{
			if p.flow == Flow::Invoice {
				continue;
			}
			// start again from what the sender sent (it carries the sender's public nonce and excess)
			let mut s = match &p.first {
				Some(f) => f.clone(),
				None => continue,
			};
			s.tx = Some(Slate::empty_transaction());
			s.amount = (p.amount as i64 + amt_delta) as u64;
			s.fee_fields = FeeFields::new(0, (p.fee as i64 + fee_delta) as u64).unwrap_or(FeeFields::zero());
			let key_id = ExtKeychain::derive_key_id(3, 1, rng.next() as u32, 0, 0);
			let split = name.contains("split over two outputs");
			let part2 = if split { s.amount / 3 } else { 0 };
			let key_id2 = ExtKeychain::derive_key_id(3, 3, rng.next() as u32, 0, 0);
			let mut elems = vec![build::output(s.amount - part2, key_id.clone())];
			if split {
				elems.push(build::output(part2, key_id2.clone()));
			}
			if *extra {
				elems.push(build::output(5_000, ExtKeychain::derive_key_id(3, 2, rng.next() as u32, 0, 0)));
			}
			if s.add_transaction_elements(&kc, &ProofBuilder::new(&kc), elems).is_err() {
				continue;
			}
			let mut ctx = Context::new(kc.secp(), &ExtKeychain::derive_key_id(2, 0, 0, 0, 0), false, false);
			ctx.add_output(&key_id, &None, s.amount - part2);
			if split {
				ctx.add_output(&key_id2, &None, part2);
			}
			if s.fill_round_1(&kc, &mut ctx).is_err() {
				continue;
			}
			ctx.initial_sec_key = ctx.sec_key.clone();
			if s.fill_round_2(&kc, &ctx.sec_key, &ctx.sec_nonce).is_err() {
				continue;
			}
			if s.adjust_offset(&kc, &ctx).is_err() {
				continue;
			}
			let _ = s.remove_other_sigdata(&kc, &ctx.sec_nonce, &ctx.sec_key);
			if !*keep {
				s.amount = 0;
				s.fee_fields = FeeFields::zero();
			} else if name.contains("only the fee") {
				s.amount = 0;
			}
			s.state = if name.contains("state switched to Invoice2") { SlateState::Invoice2 } else { SlateState::Standard2 };
			v.push((name.to_string(), s));
		}
	}
	// payment proof alterations
	if r.payment_proof.is_some() {
		// attacker-level: the requested recipient itself signs - with its real proof key - over another amount, and
		// states that amount in the reply
		if p.flow != Flow::SelfSend {
			if let Some(first) = p.first.as_ref() {
				let kc1 = w.wallets[1].keychain();
				let recipient_key = w.wallets[1].active_account().ok().and_then(|parent| libwallet::address::address_from_derivation_path(&kc1, &parent, 0).ok()).and_then(|sk| ed25519_dalek::SecretKey::from_bytes(&sk.0).ok()).map(|sk| {
					let pk: ed25519_dalek::PublicKey = (&sk).into();
					ed25519_dalek::Keypair { secret: sk, public: pk }
				});
				let keys: Vec<&grin_util::secp::key::PublicKey> = first.participant_data.iter().chain(r.participant_data.iter()).map(|x| &x.public_blind_excess).collect();
				let final_excess = grin_util::secp::key::PublicKey::from_combination(kc1.secp(), keys).ok().and_then(|k| Commitment::from_pubkey(kc1.secp(), &k).ok());
				if let (Some(kp), Some(ex)) = (recipient_key, final_excess) {
					for (name, stated) in [("proof by the requested recipient over a smaller amount, that amount stated in the reply", p.amount / 60 + 1), ("proof by the requested recipient over a larger amount, that amount stated in the reply", p.amount.saturating_mul(3))].iter() {
						let mut s = r.clone();
						if let Some(pp) = s.payment_proof.as_mut() {
							if pp.receiver_address == kp.public {
								let mut msg = stated.to_be_bytes().to_vec();
								msg.extend_from_slice(&ex.0);
								msg.extend_from_slice(&pp.sender_address.to_bytes());
								pp.receiver_signature = Some(kp.sign(&msg));
								s.amount = *stated;
								v.push((name.to_string(), s));
							}
						}
					}
				}
			}
		}
		let other_key = crate::gen::ed_keypair(&[0x31u8; 32]);
		let excess = r.calc_excess(w.wallets[0].keychain().secp()).ok();
		let mut pm = |name: &str, f: &dyn Fn(&mut Slate)| {
			let mut s = r.clone();
			f(&mut s);
			v.push((name.to_string(), s));
		};
		pm("proof stripped", &|s| s.payment_proof = None);
		pm("proof.rsig=none", &|s| {
			if let Some(p) = s.payment_proof.as_mut() {
				p.receiver_signature = None
			}
		});
		pm("proof.rsig=bit-flipped", &|s| {
			if let Some(p) = s.payment_proof.as_mut() {
				if let Some(sig) = p.receiver_signature {
					let mut b = sig.to_bytes();
					b[3] ^= 4;
					p.receiver_signature = ed25519_dalek::Signature::from_bytes(&b).ok();
				}
			}
		});
		let ok2 = crate::gen::ed_keypair(&[0x31u8; 32]);
		pm("proof signed by another key (same address field)", &move |s| {
			let amt = p.amount;
			if let (Some(pp), Some(ex)) = (s.payment_proof.as_mut(), excess) {
				let mut msg = amt.to_be_bytes().to_vec();
				msg.extend_from_slice(&ex.0);
				msg.extend_from_slice(&pp.sender_address.to_bytes());
				pp.receiver_signature = Some(ok2.sign(&msg));
			}
		});
		let ok3 = crate::gen::ed_keypair(&[0x31u8; 32]);
		pm("proof signed by another key, address replaced to match", &move |s| {
			let amt = p.amount;
			if let (Some(pp), Some(ex)) = (s.payment_proof.as_mut(), excess) {
				let mut msg = amt.to_be_bytes().to_vec();
				msg.extend_from_slice(&ex.0);
				msg.extend_from_slice(&pp.sender_address.to_bytes());
				pp.receiver_signature = Some(ok3.sign(&msg));
				pp.receiver_address = ok3.public;
			}
		});
		pm("proof.raddr=other", &|s| {
			if let Some(pp) = s.payment_proof.as_mut() {
				pp.receiver_address = other_key.public
			}
		});
		pm("proof.saddr=other", &|s| {
			if let Some(pp) = s.payment_proof.as_mut() {
				pp.sender_address = other_key.public
			}
		});
		pm("proof.saddr<->raddr", &|s| {
			if let Some(pp) = s.payment_proof.as_mut() {
				std::mem::swap(&mut pp.sender_address, &mut pp.receiver_address)
			}
		});
		if let Some(o) = other_reply {
			if let Some(op) = o.payment_proof.as_ref().and_then(|x| x.receiver_signature) {
				pm("proof.rsig=from another transaction", &move |s| {
					if let Some(pp) = s.payment_proof.as_mut() {
						pp.receiver_signature = Some(op)
					}
				});
			}
		}
	}
	v
}

fn finalize(w: &World, p: &Pending, s: &Slate) -> Result<Slate, libwallet::Error> {
	if p.flow == Flow::Invoice {
		w.wallets[p.fin].foreign_finalize(s)
	} else {
		w.wallets[p.fin].finalize(s)
	}
}

/// "success => exact": judge a finalization that returned Ok
fn judge_success(w: &mut World, rep: &mut Report, p: &Pending, name: &str, s3: &Slate, prop: &'static str) {
	let case = json!({"job": if prop == "C02" {"c02"} else {"c11"}, "flow": format!("{:?}", p.flow), "mutant": name, "amount": p.amount.to_string(), "fee": p.fee});
	let tx = match s3.tx.as_ref() {
		Some(t) => t.clone(),
		None => {
			rep.violation(&format!("{}|finalize-ok-without-tx", prop), "finalize returned Ok without a transaction", case);
			return;
		}
	};
	let mut bad: Vec<(String, String)> = vec![];
	if let Err(e) = tx.validate(Weighting::AsTransaction) {
		bad.push(("tx-invalid".into(), format!("returned transaction does not validate: {:?}", e)));
	}
	if tx.kernels().len() != 1 || tx.kernels()[0].verify().is_err() {
		bad.push(("kernel-signature".into(), "kernel signature does not verify".into()));
	}
	let min_fee = tx_fee(tx.inputs().len(), tx.outputs().len(), tx.kernels().len());
	if tx.fee() < min_fee {
		bad.push(("fee-below-minimum".into(), format!("fee {} < minimum {}", tx.fee(), min_fee)));
	}
	if tx.shifted_fee() < tx.accept_fee() {
		bad.push(("fee-below-minimum(shifted)".into(), format!("fee {} >> shift {} counts as {} < minimum {}", tx.fee(), tx.body.fee_shift(), tx.shifted_fee(), tx.accept_fee())));
	}
	if tx.fee() != p.fee {
		bad.push(("fee-not-agreed".into(), format!("kernel fee {} != fee agreed at initiation {}", tx.fee(), p.fee)));
	}
	let ins: BTreeSet<String> = tx.inputs_committed().iter().map(|c| c.to_hex()).collect();
	if p.flow != Flow::LateLock && ins != p.input_commits {
		bad.push(("inputs-not-reserved-set".into(), format!("transaction inputs {:?} != inputs recorded at initiation {:?}", ins.iter().map(|x| &x[..10]).collect::<Vec<_>>(), p.input_commits.iter().map(|x| &x[..10]).collect::<Vec<_>>())));
	}
	let outs: BTreeSet<String> = tx.outputs_committed().iter().map(|c| c.to_hex()).collect();
	if p.flow != Flow::LateLock {
		for c in p.change_commits.iter() {
			if !outs.contains(c) {
				bad.push(("change-missing".into(), format!("recorded change output {} missing from the transaction", &c[..10])));
			}
		}
		// everything that is not change must be what the honest counterparty created
		let honest: BTreeSet<String> = p.honest_reply.tx.as_ref().map(|t| t.outputs_committed().iter().map(|c| c.to_hex()).collect()).unwrap_or_default();
		for c in outs.iter() {
			if !p.change_commits.contains(c) && !honest.contains(c) && !p.finalizer_outputs.contains(c) {
				bad.push(("foreign-output".into(), format!("transaction contains output {} that is neither recorded change nor the counterparty's honest output", &c[..10])));
			}
		}
	}
	// late lock: the reservation is made at finalize; inputs must be the ones now linked to the entry
	if p.flow == Flow::LateLock {
		let wal = &w.wallets[0];
		let txs = wal.all_txs().unwrap_or_default();
		if let Some(e) = txs.iter().find(|t| t.tx_slate_id == Some(p.id) && t.tx_type == libwallet::TxLogEntryType::TxSent) {
			let reserved: BTreeSet<String> = wal.all_outputs().unwrap_or_default().iter().filter(|o| o.tx_log_entry == Some(e.id) && o.status == libwallet::OutputStatus::Locked).map(|o| wal.commit_of(o).to_hex()).collect();
			if reserved != ins {
				bad.push(("inputs-not-reserved-set".into(), "late-locked transaction inputs differ from the outputs reserved at finalization".into()));
			}
		}
	}
	// byte-for-byte the stored transaction
	let fin = &w.wallets[p.fin];
	match fin.get_stored_tx(None, Some(&p.id)) {
		Ok(Some(st)) => {
			let a = gser::ser_vec(&tx, gser::ProtocolVersion(1)).unwrap_or_default();
			let b = st.tx.as_ref().map(|t| gser::ser_vec(t, gser::ProtocolVersion(1)).unwrap_or_default()).unwrap_or_default();
			if a != b {
				bad.push(("stored-tx-differs".into(), "the stored transaction is not byte-for-byte the returned one".into()));
			}
		}
		other => bad.push(("stored-tx-missing".into(), format!("get_stored_tx after finalize: {:?}", other.map(|o| o.is_some()))),),
	}
	// payment proof soundness (C11): success => requested recipient's valid signature over (amount, final excess, sender address)
	if let Some(raddr) = &p.proof_recipient {
		match s3.payment_proof.as_ref() {
			None => bad.push(("proof-missing".into(), "proof requested but the finalized slate carries none".into())),
			Some(pp) => {
				if pp.receiver_address != raddr.pub_key {
					bad.push(("proof-recipient-address".into(), "proof recipient address differs from the requested one".into()));
				}
				let mut msg = p.amount.to_be_bytes().to_vec();
				msg.extend_from_slice(&tx.kernels()[0].excess.0);
				msg.extend_from_slice(&p.sender_address.map(|a| a.to_bytes()).unwrap_or([0u8; 32]));
				match pp.receiver_signature {
					None => bad.push(("proof-signature-missing".into(), "finalize succeeded without a recipient signature".into())),
					Some(sig) => {
						if raddr.pub_key.verify(&msg, &sig).is_err() {
							bad.push(("proof-signature-invalid".into(), "recipient signature does not verify (independently) over amount || final kernel excess || sender address".into()));
						}
					}
				}
				if Some(pp.sender_address) != p.sender_address {
					bad.push(("proof-sender-address".into(), "finalize accepted a reply whose sender address differs from the one set at initiation".into()));
				}
			}
		}
	}
	// the real chain accepts it
	if bad.is_empty() {
		match fin.post(&tx).map_err(|e| format!("{:?}", e)).and_then(|_| w.mine(None, true).map_err(|e| e)) {
			Ok(mined) => {
				if !mined.iter().any(|t| t.kernels()[0].excess == tx.kernels()[0].excess) {
					bad.push(("not-mined".into(), "the node accepted the transaction into the pool but it was not minable".into()));
				}
			}
			Err(e) => bad.push(("chain-rejects".into(), format!("the chain rejects the finalized transaction: {}", e))),
		}
	}
	for (k, what) in bad.iter() {
		rep.violation(&format!("{}|{}|{}", prop, k, if name == "honest" { "honest-reply" } else { "altered-reply-accepted" }), &format!("[{:?}, mutant '{}'] {}", p.flow, name, what), case.clone());
	}
	if bad.is_empty() {
		rep.count(&format!("success-exact:{:?}", p.flow));
	}
}

fn exported_proof_checks(w: &mut World, rep: &mut Report, p: &Pending, rng: &mut Rng, mined: bool) -> Option<PaymentProof> {
	let wal = &w.wallets[0];
	let case = json!({"job":"c11","flow": format!("{:?}", p.flow), "mined": mined});
	// addressed by the sent entry's log id (a self-send has two entries under one slate id)
	let sent_id = wal.all_txs().unwrap_or_default().iter().find(|t| t.tx_slate_id == Some(p.id) && t.tx_type == libwallet::TxLogEntryType::TxSent).map(|t| t.id);
	let proof = match owner::retrieve_payment_proof(wal.inst.clone(), None, &None, true, sent_id, None) {
		Ok(pr) => pr,
		Err(e) => {
			rep.violation("C11|export-failed", &format!("retrieve_payment_proof failed after a successful proof-carrying send: {:?}", e), case);
			return None;
		}
	};
	rep.eval();
	let v = owner::verify_payment_proof(wal.inst.clone(), None, &proof);
	if mined {
		match v {
			Ok((true, _)) => rep.count("exported-proof-verifies"),
			Ok((false, _)) => rep.violation("C11|sender-not-recognised", "verify_payment_proof does not recognise the sender's own address", case.clone()),
			Err(e) => rep.violation("C11|honest-proof-rejected", &format!("the exported proof does not verify: {:?}", e), case.clone()),
		}
	} else {
		if v.is_ok() {
			rep.violation("C11|verifies-without-kernel-on-chain", "verify_payment_proof succeeded although the kernel is not on chain", case.clone());
		} else {
			rep.count("unmined-proof-rejected");
		}
		return None;
	}
	// every alteration must fail
	let other = crate::gen::ed_keypair(&[0x55u8; 32]);
	let mut alts: Vec<(&str, PaymentProof)> = vec![];
	let clone = |pr: &PaymentProof| -> PaymentProof { serde_json::from_value(serde_json::to_value(pr).unwrap()).unwrap() };
	let mut a = clone(&proof);
	a.amount += 1;
	alts.push(("amount+1", a));
	let mut a = clone(&proof);
	a.amount = a.amount.saturating_sub(1);
	alts.push(("amount-1", a));
	let mut a = clone(&proof);
	let mut e = a.excess.0;
	e[7] ^= 1;
	a.excess = Commitment(e);
	alts.push(("excess bit flipped", a));
	if let Some(k) = w.chain().get_last_n_kernel(30).iter().map(|x| x.1.excess).find(|x| *x != proof.excess) {
		let mut a = clone(&proof);
		a.excess = k;
		alts.push(("excess of another on-chain kernel", a));
	}
	let mut a = clone(&proof);
	a.recipient_address = SlatepackAddress::new(&other.public);
	alts.push(("recipient address replaced", a));
	let mut a = clone(&proof);
	a.sender_address = SlatepackAddress::new(&other.public);
	alts.push(("sender address replaced", a));
	let mut a = clone(&proof);
	std::mem::swap(&mut a.sender_address, &mut a.recipient_address);
	alts.push(("addresses swapped", a));
	let mut a = clone(&proof);
	std::mem::swap(&mut a.sender_sig, &mut a.recipient_sig);
	alts.push(("signatures swapped", a));
	let mut a = clone(&proof);
	let mut b = a.recipient_sig.to_bytes();
	b[rng.usize(32)] ^= 1 << rng.below(8);
	if let Ok(s) = ed25519_dalek::Signature::from_bytes(&b) {
		a.recipient_sig = s;
		alts.push(("recipient signature bit flipped", a));
	}
	let mut a = clone(&proof);
	let mut b = a.sender_sig.to_bytes();
	b[rng.usize(32)] ^= 1 << rng.below(8);
	if let Ok(s) = ed25519_dalek::Signature::from_bytes(&b) {
		a.sender_sig = s;
		alts.push(("sender signature bit flipped", a));
	}
	let mut a = clone(&proof);
	let mut msg = a.amount.to_be_bytes().to_vec();
	msg.extend_from_slice(&a.excess.0);
	msg.extend_from_slice(&a.sender_address.pub_key.to_bytes());
	a.sender_sig = other.sign(&msg);
	alts.push(("sender signature by another key", a));
	let orig_json = serde_json::to_value(&proof).unwrap_or(Value::Null);
	for (name, alt) in alts {
		// an alteration that leaves the proof identical (self-send: both addresses and both
		// deterministic signatures coincide) alters nothing
		if serde_json::to_value(&alt).unwrap_or(Value::Null) == orig_json {
			rep.count("alteration-is-identity(self-send)");
			continue;
		}
		rep.eval();
		match catch(|| owner::verify_payment_proof(wal.inst.clone(), None, &alt)) {
			Ok(Ok(_)) => rep.violation(&format!("C11|altered-proof-verifies|{}", name), &format!("a payment proof with {} still verifies", name), case.clone()),
			Ok(Err(_)) => rep.count("altered-proof-rejected"),
			Err((loc, msg)) => rep.violation(&format!("C11|panic|{}", loc), &msg, case.clone()),
		}
	}
	Some(proof)
}

/// C11 last clause, second half: a proof whose kernel was on chain stops verifying once the blocks that
/// contained it are replaced by a longer fork without the transaction. Done once, as the last action
/// of a shard (the reorganisation invalidates the wallets' view of later history).
fn proof_after_reorg(w: &mut World, rep: &mut Report, proof: &PaymentProof) {
	let chain = w.chain();
	let tip = chain.head().map(|h| h.height).unwrap_or(0);
	let kh = match chain.get_kernel_height(&proof.excess, None, None) {
		Ok(Some((_, h, _))) => h,
		_ => {
			rep.inconclusive("kernel of the last verified proof not found on chain before the reorganisation");
			return;
		}
	};
	let wal = &w.wallets[0];
	match owner::verify_payment_proof(wal.inst.clone(), None, proof) {
		Ok(_) => {}
		Err(e) => {
			rep.inconclusive(&format!("the proof no longer verified before the reorganisation: {:?}", e));
			return;
		}
	}
	let len = (tip - (kh - 1)) as usize + 1;
	if let Err(e) = w.build_fork(kh - 1, len, &[], 77) {
		rep.inconclusive(&format!("fork builder failed: {}", e));
		return;
	}
	if w.kernel_on_chain(&proof.excess) {
		rep.inconclusive("the fork did not remove the kernel");
		return;
	}
	rep.eval();
	let wal = &w.wallets[0];
	match catch(|| owner::verify_payment_proof(wal.inst.clone(), None, proof)) {
		Ok(Ok(_)) => rep.violation("C11|verifies-after-kernel-reorganised-away", &format!("verify_payment_proof succeeds although the block holding the kernel (height {}) was replaced by a longer fork without it", kh), json!({"job": "c11", "kernel_height": kh, "old_tip": tip, "fork_length": len})),
		Ok(Err(_)) => rep.count("reorganised-away-proof-rejected"),
		Err((loc, msg)) => rep.violation(&format!("C11|panic|{}", loc), &msg, json!({"job": "c11"})),
	}
}

/// A payment initiated from a named account (`src_acct_name`) while another account is active, with a proof
/// requested: if finalization succeeds the result must be as exact and the exported proof as sound as for
/// the active account (C02: valid and mined; C11: the exported proof verifies).
fn named_account_scenario(w: &mut World, rep: &mut Report, rng: &mut Rng, prop: &str, late: bool) {
	let _ = w.wallets[0].create_account("acct1");
	let _ = w.wallets[0].set_account("acct1");
	let mut g = 0;
	while w.wallets[0].info(true, 1).map(|i| i.1.amount_currently_spendable).unwrap_or(0) < 60_000_000_000 && g < 6 {
		let _ = w.mine(Some(0), true);
		g += 1;
	}
	let _ = w.mine_n(None, 3);
	let wal = &w.wallets[0];
	let _ = wal.refresh();
	let _ = wal.set_account("default");
	let recipient_addr = match owner::get_slatepack_address(w.wallets[1].inst.clone(), None, 0) {
		Ok(a) => a,
		Err(_) => return,
	};
	let amount = 1_000_000_000 + rng.below(5_000_000_000);
	let args = InitTxArgs { src_acct_name: Some("acct1".to_string()), amount, minimum_confirmations: 1, num_change_outputs: 1, selection_strategy_is_use_all: false, late_lock: Some(late), payment_proof_recipient_address: Some(recipient_addr.clone()), ..Default::default() };
	let case = json!({"job": prop, "scenario": "send from src_acct_name=acct1 while default is active, proof requested", "late_lock": late, "amount": amount.to_string()});
	let r = (|| -> Result<Slate, libwallet::Error> {
		let s1 = wal.init_send(args)?;
		if !late {
			wal.lock_outputs(&s1)?;
		}
		let s2 = w.wallets[1].receive(&s1, None)?;
		wal.finalize(&s2)
	})();
	rep.eval();
	let s3 = match r {
		Ok(s) => s,
		Err(e) => {
			// a refusal is acceptable; nothing of the *active* account may be left reserved by it
			rep.count(&format!("named-account:finalize-refused:{}", err_kind(&e)));
			return;
		}
	};
	let tx = match s3.tx.clone() {
		Some(t) => t,
		None => return,
	};
	if let Err(e) = wal.post(&tx) {
		rep.violation(&format!("{}|chain-rejects|named-source-account", prop), &format!("the node rejects the finalized transaction of a send from a named account: {:?}", e), case.clone());
		return;
	}
	let _ = w.mine(None, true);
	let wal = &w.wallets[0];
	let _ = wal.set_account("acct1");
	let _ = wal.refresh();
	let sent_id = wal.all_txs().unwrap_or_default().iter().find(|t| t.tx_slate_id == Some(s3.id) && t.tx_type == libwallet::TxLogEntryType::TxSent).map(|t| t.id);
	match owner::retrieve_payment_proof(wal.inst.clone(), None, &None, true, sent_id, None) {
		Ok(pr) => match owner::verify_payment_proof(wal.inst.clone(), None, &pr) {
			Ok(_) => rep.count("named-account:exported-proof-verifies"),
			Err(e) => rep.violation("C11|honest-proof-rejected|named-source-account", &format!("a send from src_acct_name=acct1 (default active) finalized, but its exported proof does not verify: {:?}", e), case.clone()),
		},
		Err(e) => rep.violation("C11|export-failed|named-source-account", &format!("retrieve_payment_proof failed for a finalized proof-carrying send from a named account: {:?}", e), case.clone()),
	}
	let _ = wal.set_account("default");
	let _ = wal.refresh();
}

/// "spends exactly the inputs the wallet reserved", for a transaction the wallet has given up: after
/// `cancel_tx` nothing is reserved for the slate any more, so a later finalization of the (honest)
/// reply must be refused - or, if it succeeds, every input of the returned transaction must be
/// reserved (Locked) for it again. Run for a send with change and for a send without change output
/// (amount + fee = one whole coin), because cancelling removes the change record of the former.
fn cancelled_then_finalized(w: &mut World, rep: &mut Report, rng: &mut Rng, prop: &str, no_change: bool) {
	fund(w);
	let wal = &w.wallets[0];
	let _ = wal.refresh();
	let height = w.node.chain().head().map(|h| h.height).unwrap_or(0);
	let coin = wal.all_outputs().unwrap_or_default().into_iter().filter(|o| o.eligible_to_spend(height, 1) && o.root_key_id == wal.active_account().unwrap()).map(|o| o.value).max();
	let coin = match coin {
		Some(c) => c,
		None => return,
	};
	let args = if no_change {
		// the whole largest coin, fee taken from the amount: one input, no change
		InitTxArgs { amount: coin, amount_includes_fee: Some(true), minimum_confirmations: 1, max_outputs: 1, num_change_outputs: 1, selection_strategy_is_use_all: false, ..Default::default() }
	} else {
		InitTxArgs { amount: 1_000_000_000 + rng.below(3_000_000_000), minimum_confirmations: 1, num_change_outputs: 1, selection_strategy_is_use_all: false, ..Default::default() }
	};
	let case = json!({"job": prop, "scenario": "init, reply, lock, cancel_tx, then finalize_tx with the honest reply", "no_change_output": no_change});
	let r = (|| -> Result<(Slate, Slate, Context), libwallet::Error> {
		let s1 = wal.init_send(args)?;
		wal.lock_outputs(&s1)?;
		let s2 = w.wallets[1].receive(&s1, None)?;
		let ctx = wal.context(&s1.id)?;
		wal.cancel(None, Some(s1.id))?;
		Ok((s1, s2, ctx))
	})();
	let (s1, s2, ctx) = match r {
		Ok(x) => x,
		Err(e) => {
			rep.count(&format!("cancel-then-finalize:setup-refused:{}", err_kind(&e)));
			cleanup(w);
			return;
		}
	};
	if no_change && !ctx.output_ids.is_empty() {
		rep.count("cancel-then-finalize:no-change-shape-not-reached");
	}
	rep.eval();
	match catch(|| wal.finalize(&s2)) {
		Err((loc, msg)) => rep.violation(&format!("{}|panic|{}", prop, loc), &msg, case.clone()),
		Ok(Err(e)) => {
			rep.count(&format!("cancel-then-finalize:refused:{}", err_kind(&e)));
			rep.distinct(&("cancel-then-finalize", no_change, "refused"));
		}
		Ok(Ok(s3)) => {
			let kc = wal.keychain();
			let ins = commits_of(&kc, &ctx.input_ids);
			let outs = wal.all_outputs().unwrap_or_default();
			let unreserved: Vec<String> = outs.iter().filter(|o| ins.contains(&wal.commit_of(o).to_hex()) && o.status != OutputStatus::Locked).map(|o| format!("{} {}", idstr(&o.key_id), status_str(&o.status))).collect();
			let entry = wal.all_txs().unwrap_or_default().into_iter().find(|t| t.tx_slate_id == Some(s1.id)).map(|t| type_str(&t.tx_type).to_string());
			if !unreserved.is_empty() || s3.tx.is_none() {
				rep.violation(&format!("{}|finalized-after-cancel|inputs-not-reserved", prop), &format!("finalize_tx returned a transaction for a send the wallet had cancelled (log entry {:?}); its inputs are not reserved: {:?}", entry, unreserved), case.clone());
			} else {
				rep.count("cancel-then-finalize:accepted-with-inputs-reserved");
			}
		}
	}
	let _ = w.wallets[1].cancel(None, Some(s1.id));
	cleanup(w);
}

/// Proof-carrying sends in the call orders real callers use. (a) The command line's synchronous send and
/// `init_send_tx` with `send_args` reserve with the recipient's *reply*: tx_lock_outputs(reply), finalize_tx(reply).
/// (b) The sender reserves with its own slate, but its log already holds a *received* entry with the slate's id
/// (the recipient bounced the sender's slate to the sender's own foreign API). In both, a reply whose proof was
/// stripped, or re-addressed to and signed by another key, must be refused.
fn proof_in_callers_orders(w: &mut World, rep: &mut Report, rng: &mut Rng, prop: &str) {
	let other = crate::gen::ed_keypair(&[0x47u8; 32]);
	for order in ["locked-with-the-reply", "own-slate-bounced-to-the-senders-foreign-api"].iter() {
		for variant in ["honest", "proof stripped", "proof signed by another key, address replaced to match"].iter() {
			fund(w);
			let recipient_addr = match owner::get_slatepack_address(w.wallets[1].inst.clone(), None, 0) {
				Ok(a) => a,
				Err(_) => return,
			};
			let amount = 1_000_000_000 + rng.below(5_000_000_000);
			let case = json!({"job": prop, "scenario": "proof-carrying send", "call_order": order, "reply": variant, "amount": amount.to_string()});
			let wal = &w.wallets[0];
			let r = (|| -> Result<(Slate, Slate), libwallet::Error> {
				let s1 = wal.init_send(InitTxArgs { amount, minimum_confirmations: 1, num_change_outputs: 1, selection_strategy_is_use_all: false, payment_proof_recipient_address: Some(recipient_addr.clone()), ..Default::default() })?;
				let s2 = w.wallets[1].receive(&s1, None)?;
				Ok((s1, s2))
			})();
			let (s1, s2) = match r {
				Ok(x) => x,
				Err(e) => {
					rep.count(&format!("proof-callers-order:setup-refused:{}", err_kind(&e)));
					cleanup(w);
					continue;
				}
			};
			let mut reply = s2.clone();
			match *variant {
				"proof stripped" => reply.payment_proof = None,
				"honest" => {}
				_ => {
					// the final kernel excess is the sum of both participants' public excesses: the sender's is in the
					// slate it sent, the recipient's in its reply
					let kc = wal.keychain();
					let keys: Vec<&grin_util::secp::key::PublicKey> = s1.participant_data.iter().chain(reply.participant_data.iter()).map(|p| &p.public_blind_excess).collect();
					let ex = grin_util::secp::key::PublicKey::from_combination(kc.secp(), keys).ok().and_then(|k| Commitment::from_pubkey(kc.secp(), &k).ok());
					if let (Some(pp), Some(ex)) = (reply.payment_proof.as_mut(), ex) {
						let mut msg = amount.to_be_bytes().to_vec();
						msg.extend_from_slice(&ex.0);
						msg.extend_from_slice(&pp.sender_address.to_bytes());
						pp.receiver_signature = Some(other.sign(&msg));
						pp.receiver_address = other.public;
					}
				}
			}
			let lock = if *order == "locked-with-the-reply" {
				wal.lock_outputs(&reply)
			} else {
				let planted = wal.receive(&s1, None);
				rep.count(&format!("proof-callers-order:own-slate-bounced:{}", if planted.is_ok() { "accepted" } else { "refused" }));
				wal.lock_outputs(&s1)
			};
			if let Err(e) = lock {
				rep.count(&format!("proof-callers-order:{}:lock-refused:{}", order, err_kind(&e)));
				cleanup(w);
				let _ = w.wallets[1].cancel(None, Some(s1.id));
				continue;
			}
			rep.eval();
			match catch(|| wal.finalize(&reply)) {
				Err((loc, msg)) => rep.violation(&format!("{}|panic|{}", prop, loc), &msg, case),
				Ok(Err(e)) => {
					rep.count(&format!("proof-callers-order:{}:{}:refused", order, if *variant == "honest" { "honest" } else { "altered" }));
					rep.distinct(&("proof-callers-order", *order, *variant, err_kind(&e)));
				}
				Ok(Ok(_)) => {
					if *variant == "honest" {
						rep.count(&format!("proof-callers-order:{}:honest:accepted", order));
					} else {
						let exported = owner::retrieve_payment_proof(wal.inst.clone(), None, &None, false, None, Some(s1.id)).ok().map(|p| format!("{}", p.recipient_address));
						rep.violation(
							&format!("{}|{}|{}|altered-reply-accepted", prop, if *variant == "proof stripped" { "proof-stripped" } else { "proof-signed-by-another-key" }, order),
							&format!("finalize_tx accepted a reply whose proof was altered ({}) for a send that requested a proof from {}; the proof then exported names {:?}", variant, recipient_addr, exported),
							case,
						);
					}
				}
			}
			cleanup(w);
			let _ = w.wallets[1].cancel(None, Some(s1.id));
			// (the bounced copy is a received entry of the sender: release it too)
			let _ = w.wallets[0].cancel(None, Some(s1.id));
		}
	}
}

/// Two accounts of the sender whose pending sends carry the same per-account log id: cancelling the one in the
/// active account must leave the other account's send - its reserved inputs - alone, so that whatever finalize_tx
/// then returns for it still spends exactly inputs reserved for it.
fn cancel_in_another_account_then_finalize(w: &mut World, rep: &mut Report, rng: &mut Rng, prop: &str) {
	fund(w);
	let case = json!({"job": prop, "scenario": "pending sends with the same log id in two accounts; the one in the active account is cancelled, then the other (no change output) is finalized"});
	let r = (|| -> Result<Option<(Slate, Slate, u32)>, libwallet::Error> {
		let wal = &w.wallets[0];
		let _ = wal.create_account("acct1");
		// coins of its own for acct1
		wal.set_account("acct1")?;
		Ok(None)
	})();
	if r.is_err() {
		return;
	}
	let _ = w.mine_n(Some(0), 2);
	let _ = w.wallets[0].set_account("default");
	let _ = w.mine_n(None, 4);
	let r = (|| -> Result<Option<(Slate, Slate, u32)>, libwallet::Error> {
		let wal = &w.wallets[0];
		for l in ["acct1", "default"].iter() {
			wal.set_account(l)?;
			wal.refresh()?;
		}
		let accts = wal.accounts()?;
		let path = |l: &str| accts.iter().find(|a| a.label == l).map(|a| a.path.clone());
		let (pd, p1) = match (path("default"), path("acct1")) {
			(Some(a), Some(b)) => (a, b),
			_ => return Ok(None),
		};
		let txs = wal.all_txs()?;
		let (cd, c1) = (txs.iter().filter(|t| t.parent_key_id == pd).count(), txs.iter().filter(|t| t.parent_key_id == p1).count());
		// pad the account with fewer entries with pending receipts until both will hand out the same next log id
		let (label, n) = if cd > c1 { ("acct1", cd - c1) } else { ("default", c1 - cd) };
		if n > 80 {
			return Ok(None);
		}
		for k in 0..n {
			let s = w.wallets[1].init_send(InitTxArgs { amount: 50_000_000 + k as u64, minimum_confirmations: 1, selection_strategy_is_use_all: false, ..Default::default() })?;
			wal.receive(&s, Some(label))?;
		}
		// X in default, Y (no change: one whole coin, fee taken from the amount) in acct1
		let x = wal.init_send(InitTxArgs { amount: 1_000_000_000 + rng.below(1_000_000_000), minimum_confirmations: 1, selection_strategy_is_use_all: false, ..Default::default() })?;
		wal.lock_outputs(&x)?;
		let height = w.node.chain().head().map(|h| h.height).unwrap_or(0);
		let coin = wal.all_outputs()?.into_iter().filter(|o| o.root_key_id == p1 && o.eligible_to_spend(height, 1)).map(|o| o.value).max().unwrap_or(0);
		let y = wal.init_send(InitTxArgs { src_acct_name: Some("acct1".into()), amount: coin, amount_includes_fee: Some(true), minimum_confirmations: 1, max_outputs: 1, num_change_outputs: 1, selection_strategy_is_use_all: false, ..Default::default() })?;
		wal.lock_outputs(&y)?;
		let y2 = w.wallets[1].receive(&y, None)?;
		let txs = wal.all_txs()?;
		let xe = txs.iter().find(|t| t.tx_slate_id == Some(x.id) && t.parent_key_id == pd).map(|t| t.id);
		let ye = txs.iter().find(|t| t.tx_slate_id == Some(y.id) && t.parent_key_id == p1).map(|t| t.id);
		if xe.is_none() || xe != ye {
			return Ok(None);
		}
		wal.cancel(xe, None)?;
		Ok(Some((y, y2, ye.unwrap())))
	})();
	let (y, y2, ye) = match r {
		Ok(Some(x)) => x,
		Ok(None) => {
			rep.count("cross-account-cancel:ids-not-aligned");
			cleanup(w);
			return;
		}
		Err(e) => {
			rep.count(&format!("cross-account-cancel:setup-refused:{}", err_kind(&e)));
			cleanup(w);
			return;
		}
	};
	rep.eval();
	let wal = &w.wallets[0];
	match catch(|| wal.finalize(&y2)) {
		Err((loc, msg)) => rep.violation(&format!("{}|panic|{}", prop, loc), &msg, case),
		Ok(Err(e)) => rep.count(&format!("cross-account-cancel:finalize-refused:{}", err_kind(&e))),
		Ok(Ok(s3)) => {
			let outs = wal.all_outputs().unwrap_or_default();
			let mut bad = vec![];
			if let Some(tx) = s3.tx.as_ref() {
				for c in tx.inputs_committed() {
					if let Some(o) = outs.iter().find(|o| wal.commit_of(o) == c) {
						if o.status != OutputStatus::Locked || o.tx_log_entry != Some(ye) {
							bad.push(format!("{} value {} is {} (entry link {:?})", idstr(&o.key_id), o.value, status_str(&o.status), o.tx_log_entry));
						}
					}
				}
			}
			if bad.is_empty() {
				rep.count("cross-account-cancel:other-accounts-send-finalized-with-inputs-reserved");
				rep.distinct(&("cross-account-cancel", "ok"));
			} else {
				rep.violation(&format!("{}|finalized-after-cancel-in-another-account|inputs-not-reserved", prop), &format!("after the pending send with log id {} of the default account was cancelled, finalize_tx of account acct1's send with the same log id returned a transaction whose inputs are not reserved: {:?}", ye, bad), case);
			}
		}
	}
	let _ = w.wallets[0].set_account("acct1");
	let _ = w.wallets[0].cancel(None, Some(y.id));
	let _ = w.wallets[0].set_account("default");
	let _ = w.wallets[1].cancel(None, Some(y.id));
	cleanup(w);
}

/// "Byte-for-byte the transaction the wallet stores for re-posting": the stored transaction of an invoice the wallet
/// issued and finalized must survive a later, hostile invoice that reuses its slate id (the payer of the first one
/// knows the id) and that the owner goes on to pay.
fn hostile_invoice_with_the_id_of_a_finalized_one(w: &mut World, rep: &mut Report, rng: &mut Rng, prop: &str) {
	fund(w);
	let case = json!({"job": prop, "scenario": "invoice X issued and finalized by the wallet; the counterparty then sends an invoice of its own with the id X, which the wallet pays"});
	let r = (|| -> Result<(uuid::Uuid, Vec<u8>), libwallet::Error> {
		let inv = w.wallets[0].issue_invoice(IssueInvoiceTxArgs { amount: 1_000_000_000 + rng.below(1_000_000_000), ..Default::default() })?;
		let i2 = w.wallets[1].process_invoice(&inv, InitTxArgs { minimum_confirmations: 1, selection_strategy_is_use_all: false, ..Default::default() })?;
		w.wallets[1].lock_outputs(&i2)?;
		let i3 = w.wallets[0].foreign_finalize(&i2)?;
		let stored = w.wallets[0].get_stored_tx(None, Some(&inv.id))?.and_then(|s| s.tx).map(|t| gser::ser_vec(&t, gser::ProtocolVersion(1)).unwrap_or_default()).unwrap_or_default();
		let _ = i3;
		Ok((inv.id, stored))
	})();
	let (id, stored) = match r {
		Ok(x) if !x.1.is_empty() => x,
		_ => {
			rep.count("hostile-invoice-finalized-id:setup-failed");
			cleanup(w);
			return;
		}
	};
	rep.eval();
	let r2 = (|| -> Result<(), libwallet::Error> {
		let mut hostile = w.wallets[1].issue_invoice(IssueInvoiceTxArgs { amount: 300_000_000, ..Default::default() })?;
		let own = hostile.id;
		hostile.id = id;
		let r = w.wallets[0].process_invoice(&hostile, InitTxArgs { minimum_confirmations: 1, selection_strategy_is_use_all: false, ..Default::default() }).and_then(|p| w.wallets[0].lock_outputs(&p));
		let _ = w.wallets[1].cancel(None, Some(own));
		r
	})();
	let now = w.wallets[0].get_stored_tx(None, Some(&id)).ok().flatten().and_then(|s| s.tx).map(|t| gser::ser_vec(&t, gser::ProtocolVersion(1)).unwrap_or_default()).unwrap_or_default();
	if now != stored {
		rep.violation(&format!("{}|stored-transaction-replaced|invoice-reusing-the-id-of-a-finalized-own-invoice", prop), &format!("after paying an invoice that reuses the id of an invoice this wallet had issued and finalized (accepted: {}), the stored transaction of that id is no longer the finalized one ({} -> {} bytes)", r2.is_ok(), stored.len(), now.len()), case);
	} else {
		rep.count(&format!("hostile-invoice-finalized-id:stored-transaction-intact({})", if r2.is_ok() { "accepted" } else { "refused" }));
	}
	cleanup(w);
}

/// The payer's half of an invoice, built with the public `Slate` functions only (what a counterparty running other
/// software can produce): one input `input` of the keychain `kc`, one change output under `change_key`, the fee field
/// `FeeFields::new(shift, fee)`, signed consistently.
pub fn hand_built_invoice_reply(kc: &ExtKeychain, invoice: &Slate, input: &libwallet::OutputData, shift: u64, fee: u64, amount: u64, change_key: &grin_keychain::Identifier) -> Result<Slate, libwallet::Error> {
	let mut i2 = invoice.clone();
	let change = input.value.checked_sub(amount + fee).ok_or_else(|| libwallet::Error::GenericError("coin too small".into()))?;
	i2.tx = Some(Slate::empty_transaction());
	i2.fee_fields = FeeFields::new(shift, fee).map_err(|e| libwallet::Error::GenericError(format!("{:?}", e)))?;
	let elems = vec![if input.is_coinbase { build::coinbase_input(input.value, input.key_id.clone()) } else { build::input(input.value, input.key_id.clone()) }, build::output(change, change_key.clone())];
	i2.add_transaction_elements(kc, &ProofBuilder::new(kc), elems)?;
	let mut ctx = Context::new(kc.secp(), &input.root_key_id, false, false);
	ctx.add_input(&input.key_id, &input.mmr_index, input.value);
	ctx.add_output(change_key, &None, change);
	i2.fill_round_1(kc, &mut ctx)?;
	ctx.initial_sec_key = ctx.sec_key.clone();
	i2.fill_round_2(kc, &ctx.sec_key, &ctx.sec_nonce)?;
	i2.adjust_offset(kc, &ctx)?;
	i2.tx_or_err_mut()?.offset = i2.offset.clone();
	i2.amount = 0;
	i2.state = SlateState::Invoice2;
	Ok(i2)
}

/// Invoice flow with a payer that runs other software: the invoicer finalizes whatever half the payer hands back, and
/// the payer chooses the fee. The half is built by hand with the public `Slate` functions over one of wallet 0's
/// coins (what a counterparty with its own funds can do), with a fee field whose low 40 bits and *shift* (bits
/// 40..43; a node's pool divides the fee by 2^shift before comparing it with the minimum for the weight) vary.
/// Oracle, on every reply the invoicer finalizes: the returned transaction validates, its kernel verifies, its fee as
/// a node counts it (`shifted_fee`) meets the minimum for its weight (`accept_fee`), it is the stored one, and the
/// harness node mines it; a refused reply leaves the invoicer's records as they were. The first variant (minimum
/// fee, no shift) is the control that shows the hand-built half is one the invoicer accepts.
fn hostile_invoice_payer(w: &mut World, rep: &mut Report, rng: &mut Rng, prop: &str) {
	fund(w);
	let min_fee = tx_fee(1, 2, 1);
	let k = 1 + rng.below(15);
	let k2 = 1 + rng.below(3);
	let variants: Vec<(String, u64, u64, bool)> = vec![
		("control: minimum fee, no shift".into(), 0, min_fee, true),
		(format!("minimum fee in the low bits, shift {}", k), k, min_fee, false),
		("minimum fee in the low bits, shift 1".into(), 1, min_fee, false),
		("one below the minimum, no shift".into(), 0, min_fee - 1, false),
		(format!("minimum << {} with shift {} (counts as the minimum)", k2, k2), k2, min_fee << k2, true),
		(format!("(minimum << {}) - 1 with shift {} (counts as one unit below the minimum)", k2, k2), k2, (min_fee << k2) - 1, false),
	];
	let mut used: BTreeSet<String> = BTreeSet::new();
	for (name, shift, fee, meets) in variants {
		let case = json!({"job": prop, "scenario": "invoice paid by a hand-built payer half", "variant": name, "fee_shift": shift, "fee_low_bits": fee.to_string(), "minimum": min_fee});
		let _ = w.wallets[0].refresh();
		let height = w.node.chain().head().map(|h| h.height).unwrap_or(0);
		let kc0 = w.wallets[0].keychain();
		let amount = 1_000_000_000 + rng.below(3_000_000_000);
		let input = w.wallets[0].all_outputs().unwrap_or_default().into_iter().find(|o| o.eligible_to_spend(height, 1) && o.value > amount + fee + 1_000_000 && !used.contains(&o.key_id.to_hex()));
		let input = match input {
			Some(i) => i,
			None => {
				rep.inconclusive("hostile invoice payer: no coin to build the payer's half with");
				let _ = w.mine(Some(0), true);
				continue;
			}
		};
		used.insert(input.key_id.to_hex());
		let built = w.wallets[1].issue_invoice(IssueInvoiceTxArgs { amount, ..Default::default() }).and_then(|i1| {
			let change_key = ExtKeychain::derive_key_id(3, 0, 0, 3_000_000 + (rng.next() as u32 % 1_000_000), 0);
			hand_built_invoice_reply(&kc0, &i1, &input, shift, fee, amount, &change_key).map(|i2| (i1, i2))
		});
		let (i1, i2) = match built {
			Ok(x) => x,
			Err(e) => {
				rep.inconclusive(&format!("hostile invoice payer: the payer's half could not be built ({}): {:?}", name, e));
				cleanup(w);
				continue;
			}
		};
		rep.eval();
		let before = w.wallets[1].projection().map(|x| hash64(&(x.outs, x.txs))).unwrap_or(0);
		let r = catch(|| w.wallets[1].foreign_finalize(&i2));
		match r {
			Err((loc, msg)) => rep.violation(&format!("{}|panic|{}", prop, loc), &format!("finalize_tx panicked on a hand-built invoice reply ({}): {}", name, msg), case.clone()),
			Ok(Err(e)) => {
				rep.count(&format!("hostile-invoice-payer:refused:{}", if meets { "fee-that-meets-the-minimum" } else { "fee-below-the-minimum" }));
				rep.distinct(&("hostile-invoice-payer", shift, meets, "refused"));
				if name.starts_with("control") {
					rep.inconclusive(&format!("hostile invoice payer: the control reply (minimum fee, no shift) was refused: {:?}", e));
				}
				let after = w.wallets[1].projection().map(|x| hash64(&(x.outs, x.txs))).unwrap_or(0);
				if after != before {
					rep.violation(&format!("{}|failed-finalize-changed-state|hand-built-invoice-reply", prop), &format!("finalize_tx refused the reply ({}: {}) but changed the invoicer's records", name, err_kind(&e)), case.clone());
				}
			}
			Ok(Ok(s3)) => {
				rep.count(&format!("hostile-invoice-payer:accepted:{}", if meets { "fee-that-meets-the-minimum" } else { "FEE-BELOW-THE-MINIMUM" }));
				rep.distinct(&("hostile-invoice-payer", shift, meets, "accepted"));
				let mut bad: Vec<(String, String)> = vec![];
				match s3.tx.as_ref() {
					None => bad.push(("finalize-ok-without-tx".into(), "finalize returned Ok without a transaction".into())),
					Some(tx) => {
						if let Err(e) = tx.validate(Weighting::AsTransaction) {
							bad.push(("tx-invalid".into(), format!("returned transaction does not validate: {:?}", e)));
						}
						if tx.kernels().len() != 1 || tx.kernels()[0].verify().is_err() {
							bad.push(("kernel-signature".into(), "kernel signature does not verify".into()));
						}
						if tx.shifted_fee() < tx.accept_fee() {
							bad.push(("fee-below-minimum".into(), format!("fee field {:?}: fee {} >> shift {} counts as {} against the minimum {} for weight {} (a node's pool answers LowFeeTransaction)", s3.fee_fields, tx.fee(), tx.body.fee_shift(), tx.shifted_fee(), tx.accept_fee(), tx.weight())));
						}
						match w.wallets[1].get_stored_tx(None, Some(&i1.id)) {
							Ok(Some(st)) => {
								let a = gser::ser_vec(tx, gser::ProtocolVersion(1)).unwrap_or_default();
								let b = st.tx.as_ref().map(|t| gser::ser_vec(t, gser::ProtocolVersion(1)).unwrap_or_default()).unwrap_or_default();
								if a != b {
									bad.push(("stored-tx-differs".into(), "the stored transaction is not byte-for-byte the returned one".into()));
								}
							}
							other => bad.push(("stored-tx-missing".into(), format!("get_stored_tx after finalize: {:?}", other.map(|o| o.is_some())))),
						}
						if bad.is_empty() {
							match w.wallets[1].post(tx).map_err(|e| format!("{:?}", e)).and_then(|_| w.mine(None, true)) {
								Ok(mined) => {
									if !mined.iter().any(|t| t.kernels()[0].excess == tx.kernels()[0].excess) {
										bad.push(("not-mined".into(), "the node accepted the transaction into the pool but it was not minable".into()));
									}
								}
								Err(e) => bad.push(("chain-rejects".into(), format!("the chain rejects the finalized transaction: {}", e))),
							}
						}
					}
				}
				for (kind, what) in bad.iter() {
					rep.violation(&format!("{}|{}|hand-built-invoice-reply", prop, kind), &format!("[Invoice, payer's half built by hand, {}] {}", name, what), case.clone());
				}
				if bad.is_empty() {
					rep.count("success-exact:Invoice(hand-built payer half)");
				}
			}
		}
		let _ = w.wallets[1].refresh();
		let _ = w.wallets[0].refresh();
		// leave nothing pending on the invoicer (a refused or fee-starved payment is given up)
		if let Ok(txs) = w.wallets[1].all_txs() {
			for t in txs {
				if !t.confirmed && t.tx_slate_id == Some(i1.id) {
					let _ = w.wallets[1].cancel(Some(t.id), None);
				}
			}
		}
	}
	cleanup(w);
}

/// The command line's order again (reserve with the reply, then finalize), with a reply whose public excess was
/// replaced by the excess of a kernel that is already on chain. Finalization must fail - and the pending send must
/// still be cancellable afterwards, also after the wallet has refreshed (send without change output: such sends
/// are confirmed by looking their kernel up).
fn refused_reply_with_an_on_chain_excess(w: &mut World, rep: &mut Report, prop: &str) {
	fund(w);
	let wal = &w.wallets[0];
	let _ = wal.refresh();
	let height = w.node.chain().head().map(|h| h.height).unwrap_or(0);
	let coin = wal.all_outputs().unwrap_or_default().into_iter().filter(|o| o.eligible_to_spend(height, 1) && o.root_key_id == wal.active_account().unwrap()).map(|o| o.value).max().unwrap_or(0);
	let pre = wal.info(false, 1).map(|i| i.1.amount_currently_spendable).unwrap_or(0);
	let case = json!({"job": prop, "scenario": "send without change reserved with the recipient's reply; the reply's public excess is that of a kernel already on chain; finalize, refresh, cancel"});
	let chain = w.node.chain();
	let on_chain = chain.head().ok().and_then(|h| chain.get_block(&h.last_block_h).ok()).and_then(|b| b.kernels().get(0).map(|k| k.excess));
	let r = (|| -> Result<(Slate, Slate), libwallet::Error> {
		let s1 = wal.init_send(InitTxArgs { amount: coin, amount_includes_fee: Some(true), minimum_confirmations: 1, max_outputs: 1, num_change_outputs: 1, selection_strategy_is_use_all: false, ..Default::default() })?;
		let s2 = w.wallets[1].receive(&s1, None)?;
		Ok((s1, s2))
	})();
	let (s1, mut reply) = match (r, on_chain) {
		(Ok(x), Some(_)) => x,
		_ => {
			rep.count("refused-reply-on-chain-excess:setup-failed");
			cleanup(w);
			return;
		}
	};
	let secp = wal.keychain();
	if let (Some(c), Some(p)) = (on_chain, reply.participant_data.get_mut(0)) {
		if let Ok(pk) = c.to_pubkey(secp.secp()) {
			p.public_blind_excess = pk;
		}
	}
	rep.eval();
	let _ = wal.lock_outputs(&reply);
	let fin = wal.finalize(&reply);
	let _ = wal.refresh();
	let _ = w.mine(None, false);
	let _ = w.wallets[0].refresh();
	let wal = &w.wallets[0];
	let c = wal.cancel(None, Some(s1.id));
	let sp = wal.info(true, 1).map(|i| i.1.amount_currently_spendable).unwrap_or(0);
	if fin.is_ok() {
		rep.violation(&format!("{}|altered-excess-accepted|locked-with-the-reply", prop), "a reply whose public excess was replaced was finalized", case);
	} else if c.is_err() || sp < pre {
		let e = wal.all_txs().unwrap_or_default().into_iter().find(|t| t.tx_slate_id == Some(s1.id)).map(|t| (type_str(&t.tx_type).to_string(), t.confirmed));
		rep.violation(&format!("{}|not-cancellable-after-refused-reply|locked-with-the-reply|excess-of-an-on-chain-kernel", prop), &format!("after a refused reply (and a refresh) the pending send could not be cancelled back to the pre-send balance: cancel {:?}, spendable {} vs {}, entry {:?}", c.map_err(|e| err_kind(&e)), sp, pre, e), case);
	} else {
		rep.count("refused-reply-on-chain-excess:still-cancellable-after-refresh");
	}
	let _ = w.wallets[1].cancel(None, Some(s1.id));
	cleanup(w);
}

/// A late-locked send driven in the order the command-line `send` uses: init_send_tx(late_lock), then
/// tx_lock_outputs (the CLI calls it after every init), the recipient's reply, finalize_tx - retried once if
/// refused. Whatever is returned from finalization must spend exactly inputs reserved for that send.
fn late_lock_cli_order(w: &mut World, rep: &mut Report, rng: &mut Rng, prop: &str, no_change: bool) {
	fund(w);
	let wal = &w.wallets[0];
	let _ = wal.refresh();
	let height = w.node.chain().head().map(|h| h.height).unwrap_or(0);
	let coin = wal.all_outputs().unwrap_or_default().into_iter().filter(|o| o.eligible_to_spend(height, 1) && o.root_key_id == wal.active_account().unwrap()).map(|o| o.value).max();
	let coin = match coin {
		Some(c) => c,
		None => return,
	};
	let args = if no_change {
		InitTxArgs { amount: coin, amount_includes_fee: Some(true), minimum_confirmations: 1, max_outputs: 1, num_change_outputs: 1, selection_strategy_is_use_all: false, late_lock: Some(true), ..Default::default() }
	} else {
		InitTxArgs { amount: 1_000_000_000 + rng.below(3_000_000_000), minimum_confirmations: 1, num_change_outputs: 1, selection_strategy_is_use_all: false, late_lock: Some(true), ..Default::default() }
	};
	let case = json!({"job": prop, "scenario": "late-locked send in the command line's call order: init_send_tx(late_lock), tx_lock_outputs, reply, finalize_tx (retried once)", "no_change_output": no_change});
	let s1 = match wal.init_send(args) {
		Ok(s) => s,
		Err(e) => {
			rep.count(&format!("late-lock-cli-order:setup-refused:{}", err_kind(&e)));
			return;
		}
	};
	let lock = wal.lock_outputs(&s1);
	rep.count(&format!("late-lock-cli-order:early-lock:{}", if lock.is_ok() { "ok" } else { "refused" }));
	let s2 = match w.wallets[1].receive(&s1, None) {
		Ok(s) => s,
		Err(e) => {
			rep.count(&format!("late-lock-cli-order:receive-refused:{}", err_kind(&e)));
			cleanup(w);
			return;
		}
	};
	rep.eval();
	let mut done = None;
	for attempt in 0..2 {
		match catch(|| wal.finalize(&s2)) {
			Err((loc, msg)) => {
				rep.violation(&format!("{}|panic|{}", prop, loc), &msg, case.clone());
				break;
			}
			Ok(Err(e)) => rep.count(&format!("late-lock-cli-order:finalize-attempt-{}:refused:{}", attempt + 1, err_kind(&e))),
			Ok(Ok(s3)) => {
				done = Some(s3);
				break;
			}
		}
	}
	match done {
		None => rep.distinct(&("late-lock-cli-order", no_change, "refused")),
		Some(s3) => {
			let outs = wal.all_outputs().unwrap_or_default();
			let entry = wal.all_txs().unwrap_or_default().into_iter().find(|t| t.tx_slate_id == Some(s1.id) && t.tx_type == libwallet::TxLogEntryType::TxSent);
			let eid = entry.as_ref().map(|t| t.id);
			let mut bad: Vec<String> = vec![];
			let mut own_inputs = 0;
			if let Some(tx) = s3.tx.as_ref() {
				for c in tx.inputs_committed() {
					if let Some(o) = outs.iter().find(|o| wal.commit_of(o) == c) {
						own_inputs += 1;
						if o.status != OutputStatus::Locked || o.tx_log_entry != eid || eid.is_none() {
							bad.push(format!("{} value {} is {} (entry link {:?}, the send's entry {:?})", idstr(&o.key_id), o.value, status_str(&o.status), o.tx_log_entry, eid));
						}
					}
				}
			}
			if s3.tx.is_none() || own_inputs == 0 || !bad.is_empty() {
				rep.violation(&format!("{}|late-lock-after-early-tx_lock_outputs|finalized-with-inputs-not-reserved", prop), &format!("finalize_tx returned a transaction for a late-locked send on which tx_lock_outputs had been called first ({:?}); inputs not reserved for it: {:?}; log entry {:?}", lock.as_ref().map_err(err_kind), bad, entry.map(|t| (t.id, t.num_inputs, t.amount_debited))), case.clone());
			} else {
				rep.count("late-lock-cli-order:accepted-with-inputs-reserved");
				rep.distinct(&("late-lock-cli-order", no_change, "accepted"));
			}
		}
	}
	let _ = w.wallets[1].cancel(None, Some(s1.id));
	cleanup(w);
}

pub fn run(a: &Args, prop: &'static str) {
	let mut rep = Report::new(prop);
	let mut rng = Rng::new(a.shard_seed() ^ hash64(&prop));
	let mut w = World::two(&format!("{}/world", a.work));
	let _ = w.mine_n(Some(0), 5);
	let _ = w.mine_n(Some(1), 4);
	let _ = w.mine_n(None, 3);
	let proof_focus = prop == "C11";
	let n_scen = a.get_u64("scenarios", if a.thorough() { 14 } else { 3 }) as usize;
	let flows = if proof_focus { vec![Flow::Send, Flow::Send, Flow::LateLock, Flow::SelfSend] } else { vec![Flow::Send, Flow::Invoice, Flow::LateLock, Flow::SelfSend] };
	// a reply of an unrelated transaction, as a donor of valid keys/outputs/signatures
	let donor = make_pending(&mut w, &mut rng, Flow::Send, true).ok().map(|p| p.honest_reply);
	cleanup(&mut w);
	let mut last_proof: Option<PaymentProof> = None;
	// (first, while the two accounts' logs are still short: aligning their next log ids takes one padding entry per
	// entry of difference)
	if !proof_focus && a.shard % 3 == 0 {
		cancel_in_another_account_then_finalize(&mut w, &mut rep, &mut rng, prop);
	}
	for si in 0..n_scen {
		let flow = flows[(si + a.shard) % flows.len()];
		let with_proof = proof_focus || rng.chance(1, 3);
		let mut p = match make_pending(&mut w, &mut rng, flow, with_proof) {
			Ok(p) => p,
			Err(e) => {
				rep.inconclusive(&format!("scenario setup failed ({:?}): {}", flow, e));
				cleanup(&mut w);
				continue;
			}
		};
		let mut ms = mutants(&w, &p, &mut rng, donor.as_ref(), proof_focus);
		rng.shuffle(&mut ms);
		ms.push(("honest".to_string(), p.honest_reply.clone()));
		let mut n_ok = 0;
		let mut i = 0;
		while i < ms.len() {
			let (name, slate) = ms[i].clone();
			i += 1;
			rep.eval();
			if name.starts_with("attacker+planted-receive") {
				// the recipient knows the slate id: before replying it pays the sender a small unrelated amount
				// under that same id, so that the sender's log holds a *received* entry with the id of its send
				let planted = (|| -> Result<(), libwallet::Error> {
					let mut s = w.wallets[1].init_send(InitTxArgs { amount: 50_000_000, minimum_confirmations: 1, num_change_outputs: 1, selection_strategy_is_use_all: false, ..Default::default() })?;
					s.id = p.id;
					w.wallets[p.fin].receive(&s, None).map(|_| ())
				})();
				rep.count(&format!("planted-receive-with-the-id-of-the-pending-send:{}", if planted.is_ok() { "accepted" } else { "refused" }));
			}
			let before = w.wallets[p.fin].projection().map(|x| hash64(&(x.outs, x.txs))).unwrap_or(0);
			let r = catch(|| finalize(&w, &p, &slate));
			match r {
				Err((loc, msg)) => {
					rep.violation(&format!("{}|panic|{}", prop, loc), &format!("finalize panicked on mutant '{}': {}", name, msg), json!({"job": a.prop, "mutant": name, "flow": format!("{:?}", p.flow)}));
				}
				Ok(Err(e)) => {
					rep.count(&format!("refused:{}", if name == "honest" { "HONEST" } else { "altered" }));
					rep.distinct(&(format!("{:?}", p.flow), name.clone(), "refused"));
					if name == "honest" {
						rep.inconclusive(&format!("honest reply refused ({:?}): {:?}", p.flow, e));
					}
					// a failed finalize leaves the pending transaction as it was (late lock may have reserved: still cancellable)
					let after = w.wallets[p.fin].projection().map(|x| hash64(&(x.outs, x.txs))).unwrap_or(0);
					if after != before && p.flow != Flow::LateLock {
						rep.violation(&format!("{}|failed-finalize-changed-state", prop), &format!("finalize refused mutant '{}' ({:?}) but changed wallet state", name, e), json!({"job": a.prop, "mutant": name, "flow": format!("{:?}", p.flow)}));
					}
				}
				Ok(Ok(s3)) => {
					n_ok += 1;
					rep.count(&format!("accepted:{}", if name == "honest" { "honest" } else { "altered-but-harmless?" }));
					rep.distinct(&(format!("{:?}", p.flow), name.clone(), "accepted"));
					if proof_focus && p.proof_recipient.is_some() {
						exported_proof_checks(&mut w, &mut rep, &p, &mut rng, false);
					}
					judge_success(&mut w, &mut rep, &p, &name, &s3, prop);
					if proof_focus && p.proof_recipient.is_some() {
						if let Some(pr) = exported_proof_checks(&mut w, &mut rep, &p, &mut rng, true) {
							last_proof = Some(pr);
						}
					}
					if rep.samples.len() < 4 {
						rep.sample(json!({"flow": format!("{:?}", p.flow), "mutant": name, "outcome": "accepted and judged exact", "amount": p.amount.to_string(), "fee": p.fee}));
					}
					// context consumed: a fresh pending transaction for the remaining mutants
					if i < ms.len() {
						cleanup(&mut w);
						match make_pending(&mut w, &mut rng, flow, with_proof) {
							Ok(np) => {
								// re-target the remaining mutants at the new pending transaction
								let mut rest = mutants(&w, &np, &mut rng, donor.as_ref(), proof_focus);
								let done: BTreeSet<String> = ms[..i].iter().map(|m| m.0.clone()).collect();
								rest.retain(|m| !done.contains(&m.0));
								rest.push(("honest".to_string(), np.honest_reply.clone()));
								ms.truncate(i);
								ms.extend(rest);
								p = np;
							}
							Err(_) => break,
						}
					}
				}
			}
		}
		// after only-failing attempts the pending transaction can still be cancelled to the pre-send balance
		if n_ok == 0 {
			rep.inconclusive("no reply of this scenario was accepted");
		}
		let _ = w.wallets[0].refresh();
		cleanup(&mut w);
		let _ = p.pre_spendable;
	}
	// cancellability after a refused reply: dedicated scenario
	for flow in [Flow::Send, Flow::Invoice].iter() {
		if let Ok(p) = make_pending(&mut w, &mut rng, *flow, false) {
			let mut s = p.honest_reply.clone();
			s.offset = grin_keychain::BlindingFactor::from_slice(&[9u8; 32]);
			rep.eval();
			let r = finalize(&w, &p, &s);
			if r.is_ok() {
				rep.violation(&format!("{}|altered-offset-accepted", prop), "a reply with an altered offset was finalized", json!({"job": a.prop}));
			}
			let c = w.wallets[0].cancel(None, Some(p.id));
			let sp = w.wallets[0].info(true, 1).map(|i| i.1.amount_currently_spendable).unwrap_or(0);
			if c.is_err() || sp != p.pre_spendable {
				rep.violation(&format!("{}|not-cancellable-after-refused-reply", prop), &format!("after a refused reply the pending transaction could not be cancelled back to the pre-send balance: cancel {:?}, spendable {} vs {}", c.map_err(|e| err_kind(&e)), sp, p.pre_spendable), json!({"job": a.prop, "flow": format!("{:?}", flow)}));
			} else {
				rep.count("cancel-after-refused-reply-restores-balance");
			}
		}
		cleanup(&mut w);
	}
	if !proof_focus {
		cancelled_then_finalized(&mut w, &mut rep, &mut rng, prop, a.shard % 2 == 0);
		cancelled_then_finalized(&mut w, &mut rep, &mut rng, prop, a.shard % 2 == 1);
		late_lock_cli_order(&mut w, &mut rep, &mut rng, prop, a.shard % 2 == 0);
		late_lock_cli_order(&mut w, &mut rep, &mut rng, prop, a.shard % 2 == 1);
		if a.shard % 3 == 1 {
			refused_reply_with_an_on_chain_excess(&mut w, &mut rep, prop);
		}
		if a.shard % 3 == 2 {
			hostile_invoice_with_the_id_of_a_finalized_one(&mut w, &mut rep, &mut rng, prop);
		}
		if a.shard % 2 == 0 || a.thorough() {
			hostile_invoice_payer(&mut w, &mut rep, &mut rng, prop);
		}
	}
	if proof_focus {
		named_account_scenario(&mut w, &mut rep, &mut rng, prop, a.shard % 2 == 1);
		if a.shard % 4 == 0 {
			proof_in_callers_orders(&mut w, &mut rep, &mut rng, prop);
		}
	}
	if let Some(pr) = last_proof {
		proof_after_reorg(&mut w, &mut rep, &pr);
	}
	let _: Option<(SecretKey, Value)> = None;
	rep.write(&a.out);
}
