//! C18 A reorganised-away incoming payment is found reverted by scan, never spendable.

use crate::util::*;
use crate::world::*;
use grin_chain as chain;
use grin_core::core::hash::Hashed;
use grin_core::core::{Block, BlockHeader, Transaction};
use grin_util::ToHex;
use grin_wallet_libwallet as libwallet;
use grin_wallet_libwallet::{InitTxArgs, OutputData, OutputStatus, TxLogEntryType};
use serde_json::json;

/// build `len` neutral blocks on `prev` (not necessarily the head), txs in the first one; the blocks
/// are processed one by one, calling `between` after each
fn extend(w: &mut World, mut prev: BlockHeader, len: usize, txs_first: &[Transaction], salt: u32, between: &mut dyn FnMut(&mut World, usize)) -> Result<Vec<Block>, String> {
	let mut blocks = vec![];
	for i in 0..len {
		let txs: &[Transaction] = if i == 0 { txs_first } else { &[] };
		let fees: u64 = txs.iter().map(|t| t.fee()).sum();
		let (out, kern) = w.neutral_reward(fees, salt);
		let chain = w.chain();
		let b = build_block(&chain, &prev, txs, out, kern)?;
		chain.process_block(b.clone(), chain::Options::MINE).map_err(|e| format!("process fork block: {:?}", e))?;
		prev = b.header.clone();
		blocks.push(b);
		between(w, i);
	}
	Ok(blocks)
}

#[derive(Clone, Copy, Debug, PartialEq)]
enum Look {
	None,
	Refresh,
	Scan,
}

fn look(w: &World, wi: usize, l: Look) {
	match l {
		Look::None => {}
		Look::Refresh => {
			let _ = w.wallets[wi].refresh();
		}
		Look::Scan => {
			let _ = w.wallets[wi].scan(None, false);
		}
	}
}

/// judge the recipient's view of the payment against chain truth
fn judge(w: &World, rep: &mut Report, slate_id: uuid::Uuid, after: &str, full_look: bool, case: &serde_json::Value) {
	let wal = &w.wallets[1];
	let txs = wal.all_txs().unwrap_or_default();
	let restored = case["recipient_restored_from_seed"].as_bool().unwrap_or(false);
	let amount: u64 = case["amount"].as_str().and_then(|a| a.parse().ok()).unwrap_or(0);
	// (the entries of a wallet restored from its seed carry no slate id: the payment's entry is the received one
	// crediting its amount)
	let found = if restored {
		txs.iter().find(|t| t.amount_credited == amount && matches!(t.tx_type, TxLogEntryType::TxReceived | TxLogEntryType::TxReverted | TxLogEntryType::TxReceivedCancelled))
	} else {
		txs.iter().find(|t| t.tx_slate_id == Some(slate_id))
	};
	let e = match found {
		Some(e) => e.clone(),
		None => {
			rep.violation("C18|entry-vanished", "the received transaction's log entry vanished", case.clone());
			return;
		}
	};
	let outs = wal.all_outputs().unwrap_or_default();
	let relinked = case["received_output_relinked_by_an_own_send"].as_bool().unwrap_or(false);
	if restored {
		// Known limitation (see known_findings.json): a restored entry has no kernel to look for, so a wallet restored
		// from its seed cannot tell a reorganised-away payment from a spent one. That half is reported under one
		// signature naming the cause; what happens when the payment is mined again keeps its own signatures.
		let mut probe = Report::new("C18");
		let out = outs.iter().find(|o| !o.is_coinbase && o.value == amount && o.root_key_id == e.parent_key_id);
		judge_inner(w, &mut probe, &e, out, after, full_look, case);
		for v in probe.violations.iter() {
			if v.signature.starts_with("C18|not-reported-reverted") {
				rep.violation("C18|revert-not-tracked|cause=entry-restored-from-seed-has-no-kernel", &format!("[{}] {}", v.signature, v.what), case.clone());
			} else {
				rep.violation(&format!("{}|recipient-restored-from-seed", v.signature), &v.what, case.clone());
			}
		}
		if probe.violations.is_empty() {
			rep.count(&format!("judged-with-a-recipient-restored-from-seed:{}", after));
		}
		return;
	}
	let out = if relinked { outs.iter().find(|o| !o.is_coinbase && o.value == amount && o.root_key_id == e.parent_key_id) } else { outs.iter().find(|o| o.tx_log_entry == Some(e.id) && o.root_key_id == e.parent_key_id && !o.is_coinbase) };
	if relinked {
		// Known root cause (see known_findings.json, same as the open C04/C05 findings): an output record has one
		// link to a log entry, and reserving the output overwrites the link to the entry that created it. Every
		// mismatch of such a scenario is reported under one signature naming the cause.
		let mut probe = Report::new("C18");
		let mut c2 = case.clone();
		c2["received_output_relinked_by_an_own_send"] = json!(false);
		c2["amount"] = json!("0");
		judge_inner(w, &mut probe, &e, out, after, full_look, &c2);
		if !probe.violations.is_empty() {
			let sigs: Vec<String> = probe.violations.iter().map(|v| v.signature.clone()).collect();
			rep.violation("C18|revert-not-tracked|cause=received-output-reserved-by-an-own-send-before-the-reorganisation", &format!("{:?}: {}", sigs, probe.violations[0].what), case.clone());
		} else {
			rep.count("judged-with-a-relinked-output:consistent");
		}
		return;
	}
	judge_inner(w, rep, &e, out, after, full_look, case);
}

fn judge_inner(w: &World, rep: &mut Report, e: &libwallet::TxLogEntry, out: Option<&OutputData>, after: &str, full_look: bool, case: &serde_json::Value) {
	let wal = &w.wallets[1];
	let outs = wal.all_outputs().unwrap_or_default();
	// (`out` was looked up in an earlier snapshot of the same records)
	let out = out.and_then(|o| outs.iter().find(|x| x.key_id == o.key_id && x.mmr_index == o.mmr_index));
	let kernel_on_chain = match e.kernel_excess {
		Some(x) => w.kernel_on_chain(&x),
		None => case["kernel_excess"].as_str().and_then(unhex).map(|b| w.kernel_on_chain(&grin_util::secp::pedersen::Commitment::from_vec(b))).unwrap_or(false),
	};
	let out_in_utxo = out.map(|o| w.is_unspent(&wal.commit_of(o))).unwrap_or(false);
	let info = match wal.info(false, 1) {
		Ok(i) => i.1,
		Err(_) => return,
	};
	let value = out.map(|o| o.value).unwrap_or(0);
	// what the wallet counts as funds, from its own records
	let counted: u64 = outs.iter().filter(|o| o.status == OutputStatus::Unspent).map(|o| o.value).sum();
	if !kernel_on_chain {
		// reorganised away
		if full_look {
			if e.tx_type != TxLogEntryType::TxReverted || e.confirmed {
				rep.violation(&format!("C18|not-reported-reverted|after={}", after), &format!("after {} the transaction whose kernel is no longer on chain is reported as {} (confirmed: {})", after, type_str(&e.tx_type), e.confirmed), case.clone());
			}
			if let Some(o) = out {
				if o.status == OutputStatus::Unspent || o.status == OutputStatus::Locked {
					rep.violation(&format!("C18|reverted-output-still-counted|after={}", after), &format!("after {} the output of the reorganised-away payment is still {} (value {}); spendable {} total {}", after, status_str(&o.status), o.value, info.amount_currently_spendable, info.total), case.clone());
				}
			}
			// never selected as an input
			for mc in [0u64, 1].iter() {
				let need = counted + value / 2 + 1; // more than everything else: would need the reverted output
				let r = wal.init_send(InitTxArgs { amount: need.saturating_sub(50_000_000), minimum_confirmations: *mc, selection_strategy_is_use_all: true, ..Default::default() });
				if let Ok(s) = r {
					if let Ok(ctx) = wal.context(&s.id) {
						if let Some(o) = out {
							if ctx.input_ids.iter().any(|i| i.0 == o.key_id) {
								rep.violation(&format!("C18|reverted-output-selected|minconf={}", mc), &format!("init_send_tx with minimum_confirmations {} selected the reverted output as an input", mc), case.clone());
							}
						}
					}
				}
				// selection alone reserves nothing; nothing to undo
			}
			rep.count(&format!("judged-reverted:{}", after));
		}
	} else if out_in_utxo {
		// on chain (again)
		if full_look || after == "refresh" {
			if !(e.tx_type == TxLogEntryType::TxReceived && e.confirmed) {
				rep.violation(&format!("C18|not-reconfirmed|after={}", after), &format!("the transaction is on chain again but after {} it is reported as {} (confirmed: {})", after, type_str(&e.tx_type), e.confirmed), case.clone());
			}
			if out.map(|o| o.status != OutputStatus::Unspent).unwrap_or(true) {
				rep.violation(&format!("C18|reconfirmed-output-not-spendable|after={}", after), &format!("the output is in the UTXO set again but recorded as {:?}", out.map(|o| status_str(&o.status))), case.clone());
			}
			rep.count(&format!("judged-confirmed:{}", after));
		}
	}
	// coinbase rewards of orphaned blocks are not counted (after a full look)
	if full_look {
		// (a refresh, and the refresh at the start of a scan, look at the active account: its records are the ones judged)
		let active = wal.active_account().ok();
		for o in outs.iter().filter(|o| o.is_coinbase && Some(&o.root_key_id) == active.as_ref() && (o.status == OutputStatus::Unspent || o.status == OutputStatus::Locked)) {
			if !w.is_unspent(&wal.commit_of(o)) {
				rep.violation(&format!("C18|orphaned-coinbase-still-counted|after={}", after), &format!("after {} a coinbase output of an orphaned block (value {}, height {}) is still {}", after, o.value, o.height, status_str(&o.status)), case.clone());
			}
		}
		// and the balance figures agree with the records
		if info.amount_reverted != outs.iter().filter(|o| o.status == OutputStatus::Reverted).map(|o| o.value).sum::<u64>() {
			rep.violation("C18|amount-reverted-inconsistent", "amount_reverted does not equal the sum of Reverted outputs", case.clone());
		}
		let in_utxo_total: u64 = outs.iter().filter(|o| (o.status == OutputStatus::Unspent) && w.is_unspent(&wal.commit_of(o))).map(|o| o.value).sum();
		if info.total > in_utxo_total + outs.iter().filter(|o| o.status == OutputStatus::Unconfirmed && !o.is_coinbase).map(|o| o.value).sum::<u64>() {
			rep.violation(&format!("C18|total-counts-funds-not-on-chain|after={}", after), &format!("after {} the reported total {} exceeds the value of the wallet's outputs in the UTXO set {}", after, info.total, in_utxo_total), case.clone());
		}
	}
}

fn scenario(a: &Args, rep: &mut Report, rng: &mut Rng, si: usize) {
	let dir = format!("{}/s{}", a.work, si);
	let mut w = World::two(&dir);
	// every other scenario (done first, so that these blocks lie far below any fork point): the recipient wallet has a second account (sorting after the default one) whose
	// log entries - coinbases - carry the same per-account log ids as the payment will get in the default account
	let second_account = si % 2 == 1;
	if second_account {
		let _ = w.wallets[1].create_account("acct1");
		let _ = w.wallets[1].set_account("acct1");
		let _ = w.mine_n(Some(1), 3 + rng.usize(3));
		let _ = w.wallets[1].refresh();
		let _ = w.wallets[1].set_account("default");
		rep.count("recipient-has-a-second-account-with-colliding-log-ids");
	}
	let _ = w.mine_n(Some(0), 4);
	let _ = w.mine_n(None, 3 + rng.usize(3));
	let _ = w.wallets[0].refresh();
	// the payment
	let amount = 5_000_000_000 + rng.below(20_000_000_000);
	// every other payment carries a time-to-live; it is mined in time (at most 3 blocks later), and the chain will
	// be past the cutoff when the reorganisations happen
	let ttl = if rng.chance(1, 2) { Some(4 + rng.below(3)) } else { None };
	if ttl.is_some() {
		rep.count("payment-carries-a-time-to-live-that-has-passed-when-it-is-reorganised-away");
	}
	let r = (|| -> Result<(uuid::Uuid, Transaction), libwallet::Error> {
		let s1 = w.wallets[0].init_send(InitTxArgs { amount, minimum_confirmations: 1, selection_strategy_is_use_all: false, ttl_blocks: ttl, ..Default::default() })?;
		w.wallets[0].lock_outputs(&s1)?;
		let s2 = w.wallets[1].receive(&s1, None)?;
		let s3 = w.wallets[0].finalize(&s2)?;
		Ok((s1.id, s3.tx_or_err()?.clone()))
	})();
	let (id, tx) = match r {
		Ok(x) => x,
		Err(e) => {
			rep.inconclusive(&format!("payment setup failed: {:?}", e));
			return;
		}
	};
	// some blocks before the receiving block are mined by the recipient (their rewards may get orphaned)
	let pre = rng.usize(3);
	for _ in 0..pre {
		let _ = w.mine(Some(1), false);
	}
	let below = w.height(); // height just below the receiving block
	if w.mine_txs(if rng.bool() { Some(1) } else { None }, &[tx.clone()]).is_err() {
		rep.inconclusive("could not mine the payment");
		return;
	}
	let post = rng.usize(3);
	for _ in 0..post {
		let _ = w.mine(if rng.bool() { Some(1) } else { None }, false);
	}
	let _ = w.wallets[1].refresh();
	let case0 = json!({"job":"c18","scenario": si, "amount": amount.to_string(), "blocks_by_recipient_before": pre, "blocks_after": post});
	rep.eval();
	judge(&w, rep, id, "refresh", false, &case0);
	let confirmed_first = w.wallets[1].all_txs().unwrap_or_default().iter().any(|t| t.tx_slate_id == Some(id) && t.confirmed);
	if !confirmed_first {
		rep.inconclusive("payment not confirmed before the reorganisation");
		return;
	}
	// Every fifth scenario (another fifth) the recipient's wallet is from here on one restored from its seed after
	// the payment was confirmed
	let mut restored = false;
	if si % 5 == 2 {
		let rdir = format!("{}/restored", dir);
		if let Ok(rw) = Wallet::create(w.node.clone(), &rdir, "restored", MNEMONICS[1], "", false) {
			if rw.scan(None, false).is_ok() {
				w.wallets[1] = rw;
				restored = true;
				rep.count("recipient-restored-from-seed-after-the-payment-confirmed");
			}
		}
	}
	let kernel_hex = tx.kernels().get(0).map(|k| k.excess.to_hex()).unwrap_or_default();
	// Every fifth scenario the recipient has meanwhile reserved the received output for a payment of its own (and,
	// half of the time, cancelled that payment again): the output record then points at the recipient's own sent
	// entry, no longer at the received one.
	let mut relinked = false;
	if si % 5 == 4 {
		let wal = &w.wallets[1];
		let r = (|| -> Result<uuid::Uuid, libwallet::Error> {
			let s = wal.init_send(InitTxArgs { amount: 1_000_000_000, minimum_confirmations: 1, selection_strategy_is_use_all: true, ..Default::default() })?;
			wal.lock_outputs(&s)?;
			Ok(s.id)
		})();
		if let Ok(own) = r {
			let entry = wal.all_txs().unwrap_or_default().into_iter().find(|t| t.tx_slate_id == Some(id)).map(|t| t.id);
			relinked = wal.all_outputs().unwrap_or_default().iter().any(|o| !o.is_coinbase && o.value == amount && o.tx_log_entry != entry);
			if rng.bool() {
				let _ = wal.cancel(None, Some(own));
				rep.count("recipient-reserved-the-received-output-for-an-own-send-and-cancelled-it");
			} else {
				rep.count("recipient-reserved-the-received-output-for-an-own-send");
			}
		}
	}
	// ---------------- flip-flops
	let flips = 1 + rng.usize(if a.thorough() { 4 } else { 2 });
	let mut main_tip: BlockHeader = w.chain().head_header().unwrap();
	for flip in 0..flips {
		let depth = rng.usize(std::cmp::min(below as usize, 4)) as u64; // fork point 0..3 blocks below the block under the receiving block
		let fork_height = below - depth;
		let head_h = w.height();
		let with_tx = flip % 2 == 1; // odd flips bring the transaction back
		let len = (head_h - fork_height) as usize + 1 + rng.usize(2);
		let fork_point = w.chain().get_header_by_height(fork_height).unwrap();
		let mid_look = *rng.pick(&[Look::None, Look::Refresh, Look::Scan]);
		let mid_at = rng.usize(len);
		let mut between = |w: &mut World, i: usize| {
			if i == mid_at {
				look(w, 1, mid_look);
			}
		};
		let txs: Vec<Transaction> = if with_tx { vec![tx.clone()] } else { vec![] };
		let blocks = match extend(&mut w, fork_point.clone(), len, &txs, 100 + (si * 10 + flip) as u32, &mut between) {
			Ok(b) => b,
			Err(e) => {
				rep.inconclusive(&format!("fork construction failed: {}", e));
				return;
			}
		};
		let new_head = w.chain().head_header().unwrap();
		if new_head.hash() != blocks.last().unwrap().header.hash() {
			rep.inconclusive("the fork did not become the main chain");
			return;
		}
		main_tip = new_head;
		let case = json!({"job":"c18","scenario": si, "flip": flip, "fork_point_height": fork_height, "receiving_block_height": below + 1, "fork_length": len, "fork_contains_payment": with_tx, "look_during_reorg": format!("{:?} at block {}", mid_look, mid_at), "amount": amount.to_string(), "received_output_relinked_by_an_own_send": relinked, "recipient_restored_from_seed": restored, "kernel_excess": kernel_hex});
		rep.eval();
		if with_tx {
			// mined again: an ordinary refresh must report it confirmed and spendable
			let _ = w.wallets[1].refresh();
			judge(&w, rep, id, "refresh", false, &case);
			rep.distinct(&("reconfirm", depth, len, format!("{:?}", mid_look)));
		} else {
			// reorganised away: the next scan (or full refresh) must report it reverted
			let full = *rng.pick(&["scan", "full-refresh"]);
			if full == "scan" {
				let _ = w.wallets[1].scan(None, false);
			} else {
				let _ = w.wallets[1].refresh_all();
			}
			judge(&w, rep, id, full, true, &case);
			// a later ordinary refresh must not resurrect it
			let _ = w.wallets[1].refresh();
			judge(&w, rep, id, full, true, &case);
			rep.distinct(&("revert", depth, len, format!("{:?}", mid_look), full));
		}
		if rep.samples.len() < 4 {
			rep.sample(case);
		}
	}
	let _ = main_tip;
	drop(w);
	let _ = std::fs::remove_dir_all(&dir);
}

pub fn run(a: &Args) {
	let mut rep = Report::new("C18");
	let mut rng = Rng::new(a.shard_seed() ^ 0xC18);
	let n = a.get_u64("scenarios", if a.thorough() { 30 } else { 10 }) as usize;
	for si in 0..n {
		scenario(a, &mut rep, &mut rng, si);
	}
	rep.write(&a.out);
}
