//! C05 Cancelling an unconfirmed transaction is an exact rollback.

use crate::util::*;
use crate::world::*;
use grin_wallet_libwallet as libwallet;
use grin_wallet_libwallet::{InitTxArgs, IssueInvoiceTxArgs, OutputStatus, TxLogEntryType, WalletInfo};
use serde_json::{json, Value};
use std::collections::BTreeMap;

#[derive(Clone, Debug, PartialEq, Eq, PartialOrd, Ord)]
struct OutView {
	key: String,
	status: String,
	value: u64,
	height: u64,
	lock_height: u64,
	coinbase: bool,
}

#[derive(Clone, Debug, PartialEq)]
struct View {
	outs: Vec<OutView>,
	entries: Vec<PTx>,
	infos: Vec<(u64, u64, u64, u64, u64, u64, u64)>,
}

fn info_tuple(i: &WalletInfo) -> (u64, u64, u64, u64, u64, u64, u64) {
	(i.total, i.amount_awaiting_finalization, i.amount_awaiting_confirmation, i.amount_immature, i.amount_currently_spendable, i.amount_locked, i.amount_reverted)
}

fn view(w: &Wallet) -> Result<View, libwallet::Error> {
	let mut outs: Vec<OutView> = w
		.all_outputs()?
		.iter()
		.map(|o| OutView { key: idstr(&o.key_id), status: status_str(&o.status).to_string(), value: o.value, height: o.height, lock_height: o.lock_height, coinbase: o.is_coinbase })
		.collect();
	outs.sort();
	let mut entries: Vec<PTx> = w.all_txs()?.iter().map(ptx).collect();
	entries.sort();
	let mut infos = vec![];
	// balance figures of every account (reading them means switching the active account and back)
	let active = w.active_account()?;
	let accts = w.accounts()?;
	for a in accts.iter() {
		w.set_account(&a.label)?;
		for mc in [0u64, 1, 3, 10].iter() {
			infos.push(info_tuple(&w.info(false, *mc)?.1));
		}
	}
	if let Some(a) = accts.iter().find(|a| a.path == active) {
		w.set_account(&a.label)?;
	}
	Ok(View { outs, entries, infos })
}

fn view_diff(a: &View, b: &View, skip_slate: &str) -> Vec<String> {
	let mut d = vec![];
	let ma: BTreeMap<&String, &OutView> = a.outs.iter().map(|o| (&o.key, o)).collect();
	let mb: BTreeMap<&String, &OutView> = b.outs.iter().map(|o| (&o.key, o)).collect();
	for (k, o) in ma.iter() {
		match mb.get(k) {
			None => d.push(format!("output {} ({} {}) disappeared", &k[8..22], o.status, o.value)),
			Some(p) if p != o => d.push(format!("output {}: {} {} h{} -> {} {} h{}", &k[8..22], o.status, o.value, o.height, p.status, p.value, p.height)),
			_ => {}
		}
	}
	for (k, o) in mb.iter() {
		if !ma.contains_key(k) {
			d.push(format!("output {} ({} {}) left behind", &k[8..22], o.status, o.value));
		}
	}
	let ea: Vec<&PTx> = a.entries.iter().filter(|e| e.slate.as_deref() != Some(skip_slate)).collect();
	let eb: Vec<&PTx> = b.entries.iter().filter(|e| e.slate.as_deref() != Some(skip_slate)).collect();
	if ea != eb {
		d.push("another transaction's log entry changed".to_string());
	}
	if a.infos != b.infos {
		d.push(format!("balance figures (total, awaiting_finalization, awaiting_confirmation, immature, spendable, locked, reverted) for minconf 0/1/3/10: {:?} -> {:?}", a.infos, b.infos));
	}
	d
}

#[derive(Clone, Copy, Debug, PartialEq)]
enum Kind {
	SentLocked,
	SentReceivedByPeer,
	SentFinalized,
	Received,
	ReceivedThenFinalizedByPeer,
	InvoicePayee,
	InvoicePayeeProcessed,
	InvoicePayerLocked,
	LateLockedFinalized,
	SelfSend,
}

const KINDS: [Kind; 10] = [Kind::SentLocked, Kind::SentReceivedByPeer, Kind::SentFinalized, Kind::Received, Kind::ReceivedThenFinalizedByPeer, Kind::InvoicePayee, Kind::InvoicePayeeProcessed, Kind::InvoicePayerLocked, Kind::LateLockedFinalized, Kind::SelfSend];

fn fund(w: &mut World) {
	for i in 0..2 {
		// the second account needs coins of its own for the cross-account cases
		let _ = w.wallets[i].set_account("acct1");
		let mut g2 = 0;
		while w.wallets[i].info(true, 1).map(|x| x.1.amount_currently_spendable).unwrap_or(0) < 100_000_000_000 && g2 < 8 {
			let _ = w.mine(Some(i), true);
			g2 += 1;
		}
		if g2 > 0 {
			let _ = w.mine_n(None, 3);
			let _ = w.wallets[i].refresh();
		}
		let _ = w.wallets[i].set_account("default");
		let mut guard = 0;
		// enough spendable funds in enough separate outputs for several concurrent reservations
		while (w.wallets[i].info(true, 1).map(|x| x.1.amount_currently_spendable).unwrap_or(0) < 150_000_000_000
			|| w.wallets[i].all_outputs().map(|o| o.iter().filter(|o| o.eligible_to_spend(w.node.chain().head().unwrap().height, 1)).count()).unwrap_or(0) < 6)
			&& guard < 14
		{
			let _ = w.mine(Some(i), true);
			guard += 1;
		}
	}
	let _ = w.mine_n(None, 1);
}

fn cleanup(w: &mut World) {
	for i in 0..2 {
		for acct in w.wallets[i].accounts().unwrap_or_default() {
			let _ = w.wallets[i].set_account(&acct.label);
			if let Ok(txs) = w.wallets[i].all_txs() {
				for t in txs {
					if t.parent_key_id == acct.path && !t.confirmed && (t.tx_type == TxLogEntryType::TxSent || t.tx_type == TxLogEntryType::TxReceived) {
						let _ = w.wallets[i].cancel(Some(t.id), None);
					}
				}
			}
		}
		let _ = w.wallets[i].set_account("default");
	}
	w.node.st.lock().pool.clear();
}

fn one_case(w: &mut World, rep: &mut Report, rng: &mut Rng, kind: Kind, n_other: usize, by_slate_id: bool, change: u32, minconf0: bool, cross: bool, restored: bool) {
	fund(w);
	cleanup(w);
	// which wallet cancels
	let me = match kind {
		Kind::Received | Kind::ReceivedThenFinalizedByPeer | Kind::InvoicePayee | Kind::InvoicePayeeProcessed => 1,
		_ => 0,
	};
	let peer = 1 - me;
	// other pending transactions first (they must survive untouched)
	for j in 0..n_other {
		let r = (|| -> Result<(), libwallet::Error> {
			let from = if j % 2 == 0 { me } else { peer };
			let s = w.wallets[from].init_send(InitTxArgs { amount: 300_000_000 + rng.below(700_000_000), minimum_confirmations: 1, selection_strategy_is_use_all: false, ..Default::default() })?;
			w.wallets[from].lock_outputs(&s)?;
			if j % 3 != 2 {
				w.wallets[1 - from].receive(&s, None)?;
			}
			Ok(())
		})();
		if r.is_err() {
			rep.count("other-pending-setup-failed");
		}
	}
	// every fourth case the cancelling wallet's coins are records a scan has restored (as in a wallet restored from
	// its seed: stored under their MMR index), not records written by the normal flows
	if restored {
		let wal = &w.wallets[me];
		let outs = wal.all_outputs().unwrap_or_default();
		let r = (|| -> Result<(), libwallet::Error> {
			with_backend!(wal, b, {
				let mut batch = b.batch(wal.m())?;
				for o in outs.iter().filter(|o| o.status == OutputStatus::Unspent) {
					batch.delete(&o.key_id, &o.mmr_index)?;
				}
				batch.commit()?;
				Ok(())
			})
		})();
		if r.is_ok() && wal.scan(None, false).is_ok() {
			let n = wal.all_outputs().unwrap_or_default().iter().filter(|o| o.status == OutputStatus::Unspent && o.mmr_index.is_some()).count();
			if n > 0 {
				rep.count("case-with-scan-restored-coins");
			}
		}
	}
	// cross-account cases: log ids are allocated per account, so the cancelling wallet gets pending
	// sends in its *other* account whose log ids cover the id the transaction under test will receive
	let mut t_account = "default".to_string();
	if cross {
		let wal = &w.wallets[me];
		let accts = wal.accounts().unwrap_or_default();
		let txs = wal.all_txs().unwrap_or_default();
		let count = |label: &str| -> usize { accts.iter().find(|a| a.label == label).map(|a| txs.iter().filter(|t| t.parent_key_id == a.path).count()).unwrap_or(0) };
		let (cd, c1) = (count("default"), count("acct1"));
		let (x, y, cx, cy) = if cd >= c1 { ("default", "acct1", cd, c1) } else { ("acct1", "default", c1, cd) };
		let need = cx - cy + 2;
		if need <= 60 {
			let _ = wal.set_account(y);
			let mut made = 0;
			for i in 0..need {
				let r = (|| -> Result<(), libwallet::Error> {
					if i + 3 >= need {
						// the last ones (whose ids the transaction under test will share) are reserved sends
						let s = wal.init_send(InitTxArgs { amount: 200_000_000 + rng.below(300_000_000), minimum_confirmations: 1, selection_strategy_is_use_all: false, ..Default::default() })?;
						wal.lock_outputs(&s)
					} else {
						// padding: pending receipts from the peer (an entry and an unconfirmed output each)
						let s = w.wallets[peer].init_send(InitTxArgs { amount: 100_000_000 + rng.below(100_000_000), minimum_confirmations: 1, selection_strategy_is_use_all: false, ..Default::default() })?;
						wal.receive(&s, Some(y)).map(|_| ())
					}
				})();
				if r.is_ok() {
					made += 1;
				}
			}
			rep.count_n("cross-account:pending-entries-created-in-the-other-account", made);
			t_account = x.to_string();
		} else {
			rep.count("cross-account:skipped(id gap too large)");
		}
		let _ = wal.set_account(&t_account);
	}
	// for minconf-0 cases give `me` an unconfirmed incoming output to spend
	if minconf0 && me == 0 {
		let r = (|| -> Result<(), libwallet::Error> {
			let s = w.wallets[1].init_send(InitTxArgs { amount: 400_000_000_000, minimum_confirmations: 1, selection_strategy_is_use_all: true, ..Default::default() })?;
			w.wallets[1].lock_outputs(&s)?;
			w.wallets[0].receive(&s, None)?;
			Ok(())
		})();
		let _ = r;
	}
	// P0 after an identical refresh
	for i in 0..2 {
		let _ = w.wallets[i].refresh();
	}
	let p0 = match view(&w.wallets[me]) {
		Ok(v) => v,
		Err(_) => return,
	};
	let amount = if minconf0 { w.wallets[me].info(false, 0).map(|i| i.1.total).unwrap_or(0) * 9 / 10 } else { 2_000_000_000 + rng.below(3_000_000_000) };
	let mc = if minconf0 { 0 } else { 1 };
	let args = InitTxArgs { amount, minimum_confirmations: mc, num_change_outputs: change, selection_strategy_is_use_all: minconf0, ..Default::default() };
	let unconf_before: Vec<String> = p0.outs.iter().filter(|o| o.status == "Unconfirmed").map(|o| o.key.clone()).collect();
	let again = kind == Kind::Received && by_slate_id && n_other % 2 == 1;
	// create T and advance it
	let r = (|| -> Result<uuid::Uuid, libwallet::Error> {
		match kind {
			Kind::SentLocked => {
				let s = w.wallets[0].init_send(args.clone())?;
				w.wallets[0].lock_outputs(&s)?;
				Ok(s.id)
			}
			Kind::SentReceivedByPeer | Kind::Received => {
				let s = w.wallets[0].init_send(args.clone())?;
				w.wallets[0].lock_outputs(&s)?;
				w.wallets[1].receive(&s, None)?;
				if again {
					// an earlier attempt with the same slate that the recipient cancelled: the account then holds a
					// cancelled entry and the pending one under one slate id
					w.wallets[1].cancel(None, Some(s.id))?;
					w.wallets[1].receive(&s, None)?;
				}
				Ok(s.id)
			}
			Kind::SentFinalized | Kind::ReceivedThenFinalizedByPeer => {
				let s = w.wallets[0].init_send(args.clone())?;
				w.wallets[0].lock_outputs(&s)?;
				let s2 = w.wallets[1].receive(&s, None)?;
				w.wallets[0].finalize(&s2)?;
				Ok(s.id)
			}
			Kind::InvoicePayee => {
				let s = w.wallets[1].issue_invoice(IssueInvoiceTxArgs { amount, ..Default::default() })?;
				Ok(s.id)
			}
			Kind::InvoicePayeeProcessed | Kind::InvoicePayerLocked => {
				let s = w.wallets[1].issue_invoice(IssueInvoiceTxArgs { amount, ..Default::default() })?;
				let s2 = w.wallets[0].process_invoice(&s, InitTxArgs { minimum_confirmations: mc, num_change_outputs: std::cmp::max(change, 1), selection_strategy_is_use_all: false, ..Default::default() })?;
				w.wallets[0].lock_outputs(&s2)?;
				Ok(s.id)
			}
			Kind::LateLockedFinalized => {
				let mut a2 = args.clone();
				a2.late_lock = Some(true);
				a2.num_change_outputs = std::cmp::max(change, 1);
				let s = w.wallets[0].init_send(a2)?;
				let s2 = w.wallets[1].receive(&s, None)?;
				w.wallets[0].finalize(&s2)?;
				Ok(s.id)
			}
			Kind::SelfSend => {
				let s = w.wallets[0].init_send(args.clone())?;
				w.wallets[0].lock_outputs(&s)?;
				w.wallets[0].receive(&s, None)?;
				Ok(s.id)
			}
		}
	})();
	let id = match r {
		Ok(id) => id,
		Err(e) => {
			rep.count(&format!("setup-refused:{:?}:{}", kind, err_kind(&e)));
			if std::env::var("GWV_DEBUG").is_ok() {
				eprintln!("setup refused {:?}: {:?}; spendable w0 {:?} w1 {:?}", kind, e, w.wallets[0].info(false, 1).map(|i| i.1), w.wallets[1].info(false, 1).map(|i| i.1));
			}
			cleanup(w);
			return;
		}
	};
	rep.eval();
	let wal = &w.wallets[me];
	let mine: Vec<libwallet::TxLogEntry> = wal.all_txs().unwrap_or_default().into_iter().filter(|t| t.tx_slate_id == Some(id)).collect();
	// did T reserve an output that was still unconfirmed?
	let spent_unconfirmed = wal.all_outputs().unwrap_or_default().iter().any(|o| o.status == OutputStatus::Locked && unconf_before.contains(&idstr(&o.key_id)));
	let case = json!({"job":"c05","kind": format!("{:?}", kind), "cross_account": cross, "coins_restored_by_scan": restored, "account_under_test": t_account, "other_pending": n_other, "cancel_by": if by_slate_id {"slate id"} else {"log id"}, "change_outputs": change, "minimum_confirmations": mc, "amount": amount.to_string()});
	if again {
		rep.count("received-again-after-an-earlier-cancelled-attempt:cancel-by-slate-id");
	}
	if kind == Kind::SelfSend && by_slate_id {
		rep.count("self-send:cancel-by-slate-id");
	}
	// cancel (by log id: every entry of the transaction - a self-send has two; by slate id: one request)
	let mut results = vec![];
	if !by_slate_id {
		for t in mine.iter() {
			results.push(catch(|| wal.cancel(Some(t.id), None)));
		}
	} else {
		results.push(catch(|| wal.cancel(None, Some(id))));
	}
	for r in results.iter() {
		match r {
			Err((loc, msg)) => {
				rep.violation(&format!("C05|panic|{}", loc), msg, case.clone());
				cleanup(w);
				return;
			}
			Ok(Err(e)) => {
				rep.violation(&format!("C05|cancel-of-pending-refused|{:?}|{}", kind, err_kind(e)), &format!("cancelling an unconfirmed {:?} transaction was refused: {:?}", kind, e), case.clone());
				cleanup(w);
				return;
			}
			Ok(Ok(())) => {}
		}
	}
	let p1 = match view(wal) {
		Ok(v) => v,
		Err(_) => return,
	};
	let sid = id.to_string();
	let d = view_diff(&p0, &p1, &sid);
	let cancelled_ok = p1.entries.iter().filter(|e| e.slate.as_deref() == Some(sid.as_str())).all(|e| e.ty.ends_with("Cancelled"));
	if !cancelled_ok {
		rep.violation(&format!("C05|entry-not-marked-cancelled|{:?}", kind), "the cancelled transaction's log entry is not of a cancelled type", case.clone());
	}
	if !d.is_empty() {
		if spent_unconfirmed {
			rep.violation("C05|rollback-inexact|cause=unconfirmed-output-reserved-before-its-transaction-confirmed", &format!("[{:?}] after cancel the wallet differs from its pre-transaction state: {:?}", kind, d), case.clone());
		} else {
			let what: Vec<&str> = d.iter().map(|x| if x.contains("left behind") { "output-left-behind" } else if x.contains("disappeared") { "output-disappeared" } else if x.contains("another transaction") { "other-entry-changed" } else if x.starts_with("balance") { "balance" } else { "output-changed" }).collect();
			let mut ws: Vec<&str> = what.clone();
			ws.sort();
			ws.dedup();
			rep.violation(&format!("C05|rollback-inexact|{}", ws.join("+")), &format!("[{:?}, {} other pending] after cancel the wallet differs from its pre-transaction state: {:?}", kind, n_other, d), case.clone());
		}
	} else {
		rep.count(&format!("exact-rollback:{:?}", kind));
	}
	// refusal cases on the same wallet: already cancelled, unknown, coinbase, confirmed
	let before = view(wal).ok();
	let mut refusals: Vec<(&str, Result<(), libwallet::Error>)> = vec![];
	if let Some(t) = mine.get(0) {
		refusals.push(("already-cancelled", wal.cancel(Some(t.id), None)));
	}
	refusals.push(("unknown-log-id", wal.cancel(Some(987_654), None)));
	refusals.push(("unknown-slate-id", wal.cancel(None, Some(uuid::Uuid::from_slice(&rng.bytes(16)).unwrap()))));
	let all = wal.all_txs().unwrap_or_default();
	if let Some(cb) = all.iter().find(|t| t.tx_type == TxLogEntryType::ConfirmedCoinbase) {
		refusals.push(("coinbase", wal.cancel(Some(cb.id), None)));
	}
	if let Some(c) = all.iter().find(|t| t.confirmed && (t.tx_type == TxLogEntryType::TxSent || t.tx_type == TxLogEntryType::TxReceived)) {
		refusals.push(("confirmed", wal.cancel(Some(c.id), None)));
	}
	for (name, r) in refusals {
		rep.eval();
		if r.is_ok() {
			rep.violation(&format!("C05|cancel-accepted|{}", name), &format!("cancel of a {} transaction returned Ok", name), case.clone());
		} else {
			rep.count(&format!("refused:{}", name));
		}
	}
	if let (Some(b), Ok(a2)) = (before, view(wal)) {
		if b != a2 {
			rep.violation("C05|refused-cancel-changed-state", "a refused cancel changed wallet state", case.clone());
		}
	}
	rep.distinct(&(format!("{:?}", kind), n_other, by_slate_id, change, minconf0, cross));
	if cross {
		// did the other account really hold a pending entry with the same log id as the cancelled one?
		let wal = &w.wallets[me];
		let all = wal.all_txs().unwrap_or_default();
		let collide = mine.iter().any(|m| all.iter().any(|t| t.id == m.id && t.parent_key_id != m.parent_key_id && !t.confirmed && (t.tx_type == TxLogEntryType::TxSent || t.tx_type == TxLogEntryType::TxReceived)));
		rep.count(if collide { "cross-account:log-id-shared-with-a-pending-entry-of-the-other-account" } else { "cross-account:no-id-collision" });
	}
	if rep.samples.len() < 4 {
		rep.sample(case);
	}
	cleanup(w);
}

/// Refusal clause: a request that names no transaction at all, made in an account whose log holds exactly one
/// (pending) entry. It is a request for an unknown transaction: refused, nothing changes.
fn cancel_without_any_id(w: &mut World, rep: &mut Report, rng: &mut Rng, n: usize) {
	fund(w);
	let label = format!("solo{}", n);
	let wal = &w.wallets[1];
	if wal.create_account(&label).is_err() {
		return;
	}
	let case = json!({"job":"c05","scenario":"cancel_tx(None, None) in an account whose log holds exactly one pending entry", "account": label});
	let r = (|| -> Result<uuid::Uuid, libwallet::Error> {
		let s = w.wallets[0].init_send(InitTxArgs { amount: 500_000_000 + rng.below(500_000_000), minimum_confirmations: 1, selection_strategy_is_use_all: false, ..Default::default() })?;
		w.wallets[0].lock_outputs(&s)?;
		wal.receive(&s, Some(&label))?;
		Ok(s.id)
	})();
	let id = match r {
		Ok(i) => i,
		Err(e) => {
			rep.count(&format!("no-id:setup-refused:{}", err_kind(&e)));
			cleanup(w);
			return;
		}
	};
	let _ = wal.set_account(&label);
	let before = view(wal).ok();
	rep.eval();
	match catch(|| wal.cancel(None, None)) {
		Err((loc, msg)) => rep.violation(&format!("C05|panic|{}", loc), &msg, case.clone()),
		Ok(Ok(())) => rep.violation("C05|cancel-accepted|no-transaction-named", "cancel_tx with neither a log id nor a slate id returned Ok (and cancelled the account's only entry)", case.clone()),
		Ok(Err(_)) => {
			rep.count("refused:no-transaction-named");
			if let (Some(b), Ok(a)) = (before, view(wal)) {
				if a != b {
					rep.violation("C05|refused-cancel-changed-state", "a refused cancel changed wallet state", case.clone());
				}
			}
		}
	}
	let _ = wal.cancel(None, Some(id));
	let _ = wal.set_account("default");
	cleanup(w);
}

/// Refusal clause, the hard instance: a transaction that is already mined but which the wallet has not
/// looked at since (no refresh between the block and the cancel). `cancel_tx` refreshes first, so it
/// must find the transaction confirmed and refuse; nothing may be cancelled or released. Run for a send
/// with change (confirmed through its change output) and without (confirmed only by kernel look-up).
fn mined_but_not_yet_seen(w: &mut World, rep: &mut Report, rng: &mut Rng, no_change: bool, by_slate_id: bool) {
	fund(w);
	cleanup(w);
	let wal = &w.wallets[0];
	let _ = wal.refresh();
	let height = w.node.chain().head().map(|h| h.height).unwrap_or(0);
	let active = match wal.active_account() {
		Ok(a) => a,
		Err(_) => return,
	};
	let coin = wal.all_outputs().unwrap_or_default().into_iter().filter(|o| o.eligible_to_spend(height, 1) && o.root_key_id == active).map(|o| o.value).max().unwrap_or(0);
	if coin == 0 {
		return;
	}
	let args = if no_change {
		InitTxArgs { amount: coin, amount_includes_fee: Some(true), minimum_confirmations: 1, max_outputs: 1, num_change_outputs: 1, selection_strategy_is_use_all: false, ..Default::default() }
	} else {
		InitTxArgs { amount: 1_000_000_000 + rng.below(2_000_000_000), minimum_confirmations: 1, num_change_outputs: 1, selection_strategy_is_use_all: false, ..Default::default() }
	};
	let case = json!({"job":"c05","scenario":"send finalized, posted and mined; no refresh; then cancel_tx","no_change_output": no_change, "cancel_by": if by_slate_id {"slate id"} else {"log id"}});
	let r = (|| -> Result<(uuid::Uuid, grin_core::core::Transaction), libwallet::Error> {
		let s = wal.init_send(args)?;
		wal.lock_outputs(&s)?;
		let s2 = w.wallets[1].receive(&s, None)?;
		let s3 = wal.finalize(&s2)?;
		let tx = s3.tx_or_err()?.clone();
		wal.post(&tx)?;
		Ok((s.id, tx))
	})();
	let (id, tx) = match r {
		Ok(x) => x,
		Err(e) => {
			rep.count(&format!("mined-not-seen:setup-refused:{}", err_kind(&e)));
			cleanup(w);
			return;
		}
	};
	let mined = w.mine(None, true).map(|m| m.iter().any(|t| t.kernels()[0].excess == tx.kernels()[0].excess)).unwrap_or(false);
	if !mined {
		rep.inconclusive("the posted transaction was not mined");
		cleanup(w);
		return;
	}
	let wal = &w.wallets[0];
	rep.eval();
	let entry_id = wal.all_txs().unwrap_or_default().iter().find(|t| t.tx_slate_id == Some(id) && t.tx_type == TxLogEntryType::TxSent).map(|t| t.id);
	let r = if by_slate_id { catch(|| wal.cancel(None, Some(id))) } else { catch(|| wal.cancel(entry_id, None)) };
	let after = wal.all_txs().unwrap_or_default().into_iter().find(|t| t.tx_slate_id == Some(id) && (t.tx_type == TxLogEntryType::TxSent || t.tx_type == TxLogEntryType::TxSentCancelled));
	match r {
		Err((loc, msg)) => rep.violation(&format!("C05|panic|{}", loc), &msg, case.clone()),
		Ok(Ok(())) => rep.violation(&format!("C05|cancel-accepted|mined-but-not-yet-seen|{}", if no_change { "no-change" } else { "with-change" }), &format!("cancel_tx returned Ok for a transaction that is already on chain (the wallet had not refreshed since the block); entry now {:?}", after.as_ref().map(|t| (type_str(&t.tx_type), t.confirmed))), case.clone()),
		Ok(Err(_)) => match after {
			Some(t) if t.tx_type == TxLogEntryType::TxSent => {
				rep.count("refused:mined-but-not-yet-seen");
				rep.distinct(&("mined-not-seen", no_change, by_slate_id));
			}
			other => rep.violation("C05|refused-cancel-changed-state|mined-but-not-yet-seen", &format!("cancel_tx refused, but the entry is now {:?}", other.as_ref().map(|t| (type_str(&t.tx_type), t.confirmed))), case.clone()),
		},
	}
	let _ = w.wallets[1].refresh();
	cleanup(w);
}

pub fn run(a: &Args) {
	let mut rep = Report::new("C05");
	let mut rng = Rng::new(a.shard_seed() ^ 0xC05);
	let mut w = World::two(&format!("{}/world", a.work));
	for i in 0..2 {
		let _ = w.wallets[i].create_account("acct1");
	}
	let _ = w.mine_n(Some(0), 5);
	let _ = w.mine_n(Some(1), 5);
	let _ = w.mine_n(None, 3);
	// a confirmed sent/received transaction for the refusal cases
	let _ = (|| -> Result<(), libwallet::Error> {
		let s = w.wallets[0].init_send(InitTxArgs { amount: 1_000_000_000, minimum_confirmations: 1, selection_strategy_is_use_all: false, ..Default::default() })?;
		w.wallets[0].lock_outputs(&s)?;
		let s2 = w.wallets[1].receive(&s, None)?;
		let s3 = w.wallets[0].finalize(&s2)?;
		w.wallets[0].post(s3.tx_or_err()?)?;
		Ok(())
	})();
	let _ = w.mine_n(None, 2);
	let rounds = if a.thorough() { 5 } else { 1 };
	let mut idx = 0usize;
	for round in 0..rounds {
		for kind in KINDS.iter() {
			for n_other in 0..4usize {
				for by_slate in [false, true].iter() {
					idx += 1;
					if idx % a.nshards != a.shard {
						continue;
					}
					let change = if round == 0 { (idx % 4) as u32 } else { rng.below(4) as u32 };
					let change = if change == 0 && *kind != Kind::SentLocked { 1 } else { change };
					// every third case also has pending transactions with the same log ids in the wallet's other account
					one_case(&mut w, &mut rep, &mut rng, *kind, n_other, *by_slate, std::cmp::max(change, if *kind == Kind::SentLocked { 0 } else { 1 }), false, idx % 3 == 0, idx % 4 == 1);
				}
			}
		}
		// minimum_confirmations = 0 spends of a still-unconfirmed output
		for kind in [Kind::SentLocked, Kind::SentFinalized].iter() {
			idx += 1;
			if idx % a.nshards == a.shard {
				one_case(&mut w, &mut rep, &mut rng, *kind, 1, false, 1, true, false, false);
			}
		}
	}
	// mined-but-not-yet-seen refusals (both shapes, both ways of addressing), dealt across shards
	for (k, (nc, by)) in [(true, true), (true, false), (false, true), (false, false)].iter().enumerate() {
		if (k + a.shard) % 2 == 0 || a.thorough() {
			mined_but_not_yet_seen(&mut w, &mut rep, &mut rng, *nc, *by);
		}
	}
	cancel_without_any_id(&mut w, &mut rep, &mut rng, a.shard);
	let _: Option<Value> = None;
	rep.write(&a.out);
}
