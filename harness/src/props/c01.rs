//! C01 Sender-side construction conserves value.
//!
//! Workload A drives the real `internal::selection` functions (hook H1) on an in-memory
//! WalletBackend over a directed grid + random draws. Workload B drives the public API on a real
//! LMDB wallet and chain. The oracle is an independent eligibility predicate and u128 sums.

use crate::util::*;
use crate::world::*;
use grin_core::core::{FeeFields, Transaction};
use grin_core::libtx::proof::ProofBuilder;
use grin_core::libtx::tx_fee;
use grin_keychain::{ExtKeychain, Identifier, Keychain};
use grin_util::secp::key::SecretKey;
use grin_wallet_libwallet as libwallet;
use grin_wallet_libwallet::verif::selection;
use grin_wallet_libwallet::{
	AcctPathMapping, Context, InitTxArgs, IssueInvoiceTxArgs, OutputData, OutputStatus,
	ScannedBlockInfo, TxLogEntry, WalletBackend, WalletInitStatus, WalletOutputBatch,
};
use serde_json::{json, Value};
use std::sync::atomic::{AtomicU32, AtomicU64, Ordering};
use uuid::Uuid;

// ---------------------------------------------------------------- in-memory backend

pub struct MemBackend {
	pub outs: Vec<OutputData>,
	pub parent: Identifier,
	pub next: AtomicU32,
	pub iters: AtomicU64,
	pub node: DirectNode,
	pub kc: ExtKeychain,
}

const ITER_LIMIT: u64 = 10_000;

impl<'a> WalletBackend<'a, DirectNode, ExtKeychain> for MemBackend {
	fn set_keychain(
		&mut self,
		_: Box<ExtKeychain>,
		_: bool,
		_: bool,
	) -> Result<Option<SecretKey>, libwallet::Error> {
		unimplemented!()
	}
	fn close(&mut self) -> Result<(), libwallet::Error> {
		Ok(())
	}
	fn keychain(&self, _mask: Option<&SecretKey>) -> Result<ExtKeychain, libwallet::Error> {
		Ok(self.kc.clone())
	}
	fn w2n_client(&mut self) -> &mut DirectNode {
		&mut self.node
	}
	fn calc_commit_for_cache(
		&mut self,
		_: Option<&SecretKey>,
		_: u64,
		_: &Identifier,
	) -> Result<Option<String>, libwallet::Error> {
		Ok(None)
	}
	fn set_parent_key_id_by_name(&mut self, _: &str) -> Result<(), libwallet::Error> {
		Ok(())
	}
	fn set_parent_key_id(&mut self, id: Identifier) {
		self.parent = id;
	}
	fn parent_key_id(&mut self) -> Identifier {
		self.parent.clone()
	}
	fn iter<'b>(&'b self) -> Box<dyn Iterator<Item = OutputData> + 'b> {
		let n = self.iters.fetch_add(1, Ordering::SeqCst) + 1;
		if n > ITER_LIMIT {
			panic!("GWV-STEP-LIMIT: wallet.iter() called more than {} times in one selection", ITER_LIMIT);
		}
		Box::new(self.outs.clone().into_iter())
	}
	fn get(&self, _: &Identifier, _: &Option<u64>) -> Result<OutputData, libwallet::Error> {
		Err(libwallet::Error::GenericError("mem".into()))
	}
	fn get_tx_log_entry(&self, _: &Uuid) -> Result<Option<TxLogEntry>, libwallet::Error> {
		Ok(None)
	}
	fn get_private_context(
		&mut self,
		_: Option<&SecretKey>,
		_: &[u8],
	) -> Result<Context, libwallet::Error> {
		Err(libwallet::Error::GenericError("mem".into()))
	}
	fn tx_log_iter<'b>(&'b self) -> Box<dyn Iterator<Item = TxLogEntry> + 'b> {
		Box::new(vec![].into_iter())
	}
	fn acct_path_iter<'b>(&'b self) -> Box<dyn Iterator<Item = AcctPathMapping> + 'b> {
		Box::new(vec![].into_iter())
	}
	fn get_acct_path(&self, _: String) -> Result<Option<AcctPathMapping>, libwallet::Error> {
		Ok(None)
	}
	fn store_tx(&self, _: &str, _: &Transaction) -> Result<(), libwallet::Error> {
		Ok(())
	}
	fn get_stored_tx(&self, _: &str) -> Result<Option<Transaction>, libwallet::Error> {
		Ok(None)
	}
	fn batch<'b>(
		&'b mut self,
		_: Option<&SecretKey>,
	) -> Result<Box<dyn WalletOutputBatch<ExtKeychain> + 'b>, libwallet::Error> {
		Err(libwallet::Error::GenericError("mem backend has no batch".into()))
	}
	fn batch_no_mask<'b>(
		&'b mut self,
	) -> Result<Box<dyn WalletOutputBatch<ExtKeychain> + 'b>, libwallet::Error> {
		Err(libwallet::Error::GenericError("mem backend has no batch".into()))
	}
	fn current_child_index(&mut self, _: &Identifier) -> Result<u32, libwallet::Error> {
		Ok(self.next.load(Ordering::SeqCst))
	}
	fn next_child(&mut self, _: Option<&SecretKey>) -> Result<Identifier, libwallet::Error> {
		let n = self.next.fetch_add(1, Ordering::SeqCst);
		let mut p = self.parent.to_path();
		p.depth += 1;
		p.path[p.depth as usize - 1] = grin_keychain::ChildNumber::from(n);
		Ok(Identifier::from_path(&p))
	}
	fn last_confirmed_height(&mut self) -> Result<u64, libwallet::Error> {
		Ok(0)
	}
	fn last_scanned_block(&mut self) -> Result<ScannedBlockInfo, libwallet::Error> {
		Err(libwallet::Error::GenericError("mem".into()))
	}
	fn init_status(&mut self) -> Result<WalletInitStatus, libwallet::Error> {
		Ok(WalletInitStatus::InitComplete)
	}
}

// ---------------------------------------------------------------- oracle

/// Independent statement of "currently spendable output of the source account"
pub fn spendable(o: &OutputData, parent: &Identifier, height: u64, minconf: u64) -> bool {
	if o.root_key_id != *parent {
		return false;
	}
	if o.lock_height > height {
		return false;
	}
	match o.status {
		OutputStatus::Unspent => {
			let conf = if o.height > height { 0 } else { 1 + height - o.height };
			conf >= minconf
		}
		OutputStatus::Unconfirmed => !o.is_coinbase && minconf == 0,
		OutputStatus::Locked | OutputStatus::Spent | OutputStatus::Reverted => false,
	}
}

#[derive(Clone, Debug)]
pub struct Params {
	pub amount: u64,
	pub includes_fee: bool,
	pub height: u64,
	pub minconf: u64,
	pub max_outputs: usize,
	pub change_outputs: usize,
	pub use_all: bool,
}

fn out_json(o: &OutputData) -> Value {
	json!({"acct": idstr(&o.root_key_id), "key": idstr(&o.key_id), "value": o.value.to_string(), "status": status_str(&o.status),
		"height": o.height, "lock_height": o.lock_height, "coinbase": o.is_coinbase})
}

fn params_json(p: &Params) -> Value {
	json!({"amount": p.amount.to_string(), "amount_includes_fee": p.includes_fee, "height": p.height, "minimum_confirmations": p.minconf,
		"max_outputs": p.max_outputs, "num_change_outputs": p.change_outputs, "use_all": p.use_all})
}

fn amount_class(a: u64, total: u64) -> &'static str {
	if a == 0 {
		"0"
	} else if a > total {
		">total"
	} else if a == total {
		"=total"
	} else if a > u64::MAX - 1_000_000_000 {
		"near-max"
	} else {
		"<total"
	}
}

/// Run one case of workload A. Returns a behaviour class for the evidence.
pub fn case_a(rep: &mut Report, outs: &[OutputData], parent: &Identifier, p: &Params, node: &DirectNode, kc: &ExtKeychain) {
	rep.eval();
	let mut be = MemBackend {
		outs: outs.to_vec(),
		parent: parent.clone(),
		next: AtomicU32::new(100),
		iters: AtomicU64::new(0),
		node: node.clone(),
		kc: kc.clone(),
	};
	let case = || json!({"workload": "A", "outputs": outs.iter().map(out_json).collect::<Vec<_>>(), "account": idstr(parent), "params": params_json(p)});
	let eligible: Vec<&OutputData> = outs
		.iter()
		.filter(|o| spendable(o, parent, p.height, p.minconf))
		.collect();
	let elig_total: u128 = eligible.iter().map(|o| o.value as u128).sum();

	let r = catch(|| {
		selection::select_coins_and_fee(
			&mut be,
			p.amount,
			p.includes_fee,
			p.height,
			p.minconf,
			p.max_outputs,
			p.change_outputs,
			p.use_all,
			parent,
		)
	});
	let cls_in = (
		amount_class(p.amount, std::cmp::min(elig_total, u64::MAX as u128) as u64),
		p.includes_fee,
		p.use_all,
		std::cmp::min(p.change_outputs, 4),
		std::cmp::min(p.max_outputs, 4),
		std::cmp::min(eligible.len(), 4),
		eligible.len() < outs.len(),
	);
	let (coins, _total, new_amount, fee) = match r {
		Err((loc, msg)) => {
			if msg.starts_with("GWV-STEP-LIMIT") {
				rep.violation("C01|unbounded-reselection", "selection did not terminate within the logical step bound", case());
			} else {
				rep.violation(&format!("C01|panic|select|{}", loc), &format!("select_coins_and_fee panicked at {}: {}", loc, msg), case());
			}
			return;
		}
		Ok(Err(e)) => {
			rep.count(&format!("A:refused:{}", err_kind(&e)));
			rep.distinct(&("A-refused", cls_in));
			return;
		}
		Ok(Ok(t)) => t,
	};
	if FeeFields::new(0, fee).is_err() {
		// The selection arrived at a fee no kernel can carry (more than 2^40 - 1): the operations built on it
		// (here: building the send; the estimate is judged at API level in workload B) cannot make this payment and
		// have to say so with an error.
		let mk = || MemBackend { outs: outs.to_vec(), parent: parent.clone(), next: AtomicU32::new(100), iters: AtomicU64::new(0), node: node.clone(), kc: kc.clone() };
		if rep.hist.get("A:fee-exceeds-the-kernel-fee-field:send-judged").cloned().unwrap_or(0) < 4 {
			rep.count("A:fee-exceeds-the-kernel-fee-field:send-judged");
			let mut be3 = mk();
			let mut slate = libwallet::Slate::blank(2, false);
			slate.amount = p.amount;
			match catch(|| selection::build_send_tx(&mut be3, kc, None, &mut slate, p.height, p.minconf, p.max_outputs, p.change_outputs, p.use_all, None, parent.clone(), false, true, p.includes_fee)) {
				Err((loc, msg)) => rep.violation(&format!("C01|panic|build_send_tx|{}|fee-exceeds-the-kernel-fee-field", loc), &format!("build_send_tx panicked at {}: {}", loc, msg), case()),
				Ok(Err(e)) => rep.count(&format!("A:fee-exceeds-the-kernel-fee-field:send-refused:{}", err_kind(&e))),
				Ok(Ok(_)) => rep.violation("C01|agreed-to-build-with-a-fee-no-kernel-can-carry", &format!("build_send_tx agreed to a payment whose fee {} exceeds the kernel fee field", fee), case()),
			}
		}
		return;
	}
	// inputs: currently spendable outputs of the source account, no duplicates
	let mut seen = std::collections::BTreeSet::new();
	for c in coins.iter() {
		if !outs.iter().any(|o| o == c) {
			rep.violation("C01|input-not-a-wallet-output", "selected coin is not one of the wallet's outputs", case());
			return;
		}
		if !spendable(c, parent, p.height, p.minconf) {
			rep.violation(
				&format!("C01|input-not-spendable|status={}|coinbase={}|other-account={}|immature={}", status_str(&c.status), c.is_coinbase, c.root_key_id != *parent, c.lock_height > p.height),
				&format!("selected input {} is not currently spendable", out_json(c)),
				case(),
			);
			return;
		}
		if !seen.insert((c.key_id.clone(), c.mmr_index)) {
			rep.violation("C01|input-selected-twice", "same output selected twice", case());
			return;
		}
	}
	let in_total: u128 = coins.iter().map(|c| c.value as u128).sum();
	// amount-includes-fee: recipient amount becomes A - fee
	if p.includes_fee {
		if new_amount as u128 + fee as u128 != p.amount as u128 {
			rep.violation("C01|includes-fee-amount", &format!("amount_includes_fee: recipient amount {} + fee {} != A {}", new_amount, fee, p.amount), case());
			return;
		}
	} else if new_amount != p.amount {
		rep.violation("C01|amount-changed", &format!("amount changed from {} to {}", p.amount, new_amount), case());
		return;
	}
	let r2 = catch(|| {
		selection::inputs_and_change::<MemBackend, DirectNode, ExtKeychain, ProofBuilder<ExtKeychain>>(
			&coins,
			&mut be,
			None,
			new_amount,
			fee,
			p.change_outputs,
			false,
		)
	});
	let change = match r2 {
		Err((loc, msg)) => {
			let chg = in_total as i128 - new_amount as i128 - fee as i128;
			let class = if p.change_outputs == 0 {
				"change_outputs=0"
			} else if chg > 0 && (chg as u128) < p.change_outputs as u128 {
				"change<num_change_outputs"
			} else {
				"other"
			};
			rep.violation(&format!("C01|panic|inputs_and_change|{}|{}", loc, class), &format!("inputs_and_change panicked at {}: {}", loc, msg), case());
			return;
		}
		Ok(Err(e)) => {
			rep.count(&format!("A:refused-change:{}", err_kind(&e)));
			rep.distinct(&("A-refused-change", cls_in));
			return;
		}
		Ok(Ok((_parts, ch))) => ch,
	};
	let ch_total: u128 = change.iter().map(|c| c.0 as u128).sum();
	let want = new_amount as u128 + fee as u128 + ch_total;
	if in_total != want {
		let d = in_total as i128 - want as i128;
		let class = if p.amount as u128 + fee as u128 > u64::MAX as u128 {
			"amount+fee-overflows-u64".to_string()
		} else if in_total < new_amount as u128 + fee as u128 {
			"inputs<amount+fee".to_string()
		} else if d > 0 && (d as u128) < 2 * p.change_outputs as u128 {
			"change-split-remainder-lost".to_string()
		} else {
			"other".to_string()
		};
		rep.violation(
			&format!("C01|conservation|{}", class),
			&format!("inputs {} != amount {} + fee {} + change {} (difference {})", in_total, new_amount, fee, ch_total, d),
			case(),
		);
		return;
	}
	let min_fee = tx_fee(coins.len(), 1 + change.len(), 1);
	if fee < min_fee {
		rep.violation("C01|fee-below-minimum", &format!("fee {} < minimum {} for {} inputs, {} outputs, 1 kernel", fee, min_fee, coins.len(), 1 + change.len()), case());
		return;
	}
	let mut ids: Vec<&Identifier> = change.iter().map(|c| &c.1).collect();
	let n = ids.len();
	ids.sort();
	ids.dedup();
	if ids.len() != n {
		rep.violation("C01|change-key-reused", "two change outputs share a derivation path", case());
		return;
	}
	rep.count("A:built");
	rep.max("max:A:inputs-selected", coins.len() as u64);
	rep.distinct(&("A-built", cls_in, std::cmp::min(coins.len(), 4), change.len()));
	if rep.samples.len() < 3 && coins.len() >= 2 && !change.is_empty() {
		rep.sample(json!({"workload":"A","params": params_json(p), "wallet_outputs": outs.len(), "selected": coins.iter().map(|c| c.value.to_string()).collect::<Vec<_>>(), "fee": fee, "change": change.iter().map(|c| c.0.to_string()).collect::<Vec<_>>()}));
	}
}

fn mk_out(parent: &Identifier, n: u32, value: u64, status: OutputStatus, height: u64, lock_height: u64, coinbase: bool) -> OutputData {
	let mut p = parent.to_path();
	p.depth += 1;
	p.path[p.depth as usize - 1] = grin_keychain::ChildNumber::from(n);
	OutputData {
		root_key_id: parent.clone(),
		key_id: Identifier::from_path(&p),
		n_child: n,
		commit: None,
		mmr_index: None,
		value,
		status,
		height,
		lock_height,
		is_coinbase: coinbase,
		tx_log_entry: None,
	}
}

const STATUSES: [OutputStatus; 5] = [
	OutputStatus::Unspent,
	OutputStatus::Unconfirmed,
	OutputStatus::Locked,
	OutputStatus::Spent,
	OutputStatus::Reverted,
];

fn value_pool() -> Vec<u64> {
	let mut v = vec![1u64, 2, 3, 5, 7, 60_000_000_000, 1 << 40, 1 << 62, 1 << 63, u64::MAX / 2, u64::MAX / 3, u64::MAX - 1];
	for i in 1..3usize {
		for o in 1..4usize {
			let f = tx_fee(i, o, 1);
			v.push(f);
			v.push(f + 1);
			v.push(f - 1);
			v.push(2 * f);
			v.push(f + 11);
		}
	}
	v.sort();
	v.dedup();
	v
}

fn directed_amounts(elig_total: u128, n_elig: usize) -> Vec<u64> {
	let mut v: Vec<u64> = vec![0, 1, 2, u64::MAX, u64::MAX - 1, u64::MAX - 5, u64::MAX - 23_000_000];
	let t = std::cmp::min(elig_total, u64::MAX as u128) as u64;
	for d in 0..3u64 {
		v.push(t.saturating_sub(d));
		v.push(t.saturating_add(d));
	}
	for i in 1..=std::cmp::max(n_elig, 1) {
		for o in 1..5usize {
			let f = tx_fee(i, o, 1);
			for c in 0..(o as u64 * o as u64 + 3) {
				v.push(t.saturating_sub(f).saturating_sub(c));
			}
		}
	}
	v.sort();
	v.dedup();
	v
}

fn run_a(rep: &mut Report, a: &Args, rng: &mut Rng, node: &DirectNode) {
	let kc = ExtKeychain::from_seed(&[3u8; 32], true).unwrap();
	let parent = ExtKeychain::derive_key_id(2, 0, 0, 0, 0);
	let other = ExtKeychain::derive_key_id(2, 1, 0, 0, 0);
	let vals = value_pool();
	let change_counts = [0usize, 1, 2, 3, 4, 5, 17, 255, 105_000];
	let max_outs = [0usize, 1, 2, 3, 500];
	let minconfs = [0u64, 1, 2, 10];

	// ---- exhaustive small scope (shard 0 only): <= 3 outputs over 6 values, all Unspent mature,
	// every directed amount, every strategy/fee mode, change 0..4, max_outputs {1,2,500}
	{
		let small_vals: Vec<u64> = vec![1, 3, tx_fee(1, 2, 1), tx_fee(1, 2, 1) + 11, 60_000_000_000, 1 << 63];
		let mut n = 0u64;
		let mut ms = 0usize;
		for k in 1..=3usize {
			let mut idx = vec![0usize; k];
			loop {
				// non-decreasing index tuples (multisets), dealt round-robin to the shards
				ms += 1;
				let mine = ms % a.nshards == a.shard;
				let outs: Vec<OutputData> = idx
					.iter()
					.enumerate()
					.map(|(i, vi)| mk_out(&parent, i as u32, small_vals[*vi], OutputStatus::Unspent, 1, 0, false))
					.collect();
				let tot: u128 = outs.iter().map(|o| o.value as u128).sum();
				// a wallet's outputs exist on one chain: their sum is bounded by the supply, so
				// sets whose total does not fit in u64 are not generated (documented bound)
				let amounts = if tot > u64::MAX as u128 || !mine { vec![] } else { directed_amounts(tot, k) };
				for amount in amounts {
					for &co in &[0usize, 1, 2, 3, 4] {
						for &mo in &[1usize, 2, 500] {
							for &ua in &[false, true] {
								for &inc in &[false, true] {
									let p = Params { amount, includes_fee: inc, height: 10, minconf: 1, max_outputs: mo, change_outputs: co, use_all: ua };
									case_a(rep, &outs, &parent, &p, node, &kc);
									n += 1;
								}
							}
						}
					}
				}
				// next multiset
				let mut j = k;
				while j > 0 && idx[j - 1] == small_vals.len() - 1 {
					j -= 1;
				}
				if j == 0 {
					break;
				}
				let nv = idx[j - 1] + 1;
				for t in (j - 1)..k {
					idx[t] = nv;
				}
			}
		}
		rep.count_n("A:small-scope-cases(exhaustive: <=3 unspent outputs over 6 values x directed amounts x change 0..4 x max_outputs{1,2,500} x strategies x fee modes)", n);
		rep.exhaustive = Some(true);
	}

	// ---- sampled larger scope
	let n_wallets = if a.thorough() { 60_000 } else { 2_500 };
	for _ in 0..n_wallets {
		let n_out = rng.usize(9);
		let height = rng.below(21);
		let mut outs = vec![];
		let mut running: u128 = 0;
		for i in 0..n_out {
			let status = if rng.chance(3, 5) { OutputStatus::Unspent } else { STATUSES[rng.usize(5)].clone() };
			let coinbase = rng.chance(1, 4);
			let oh = match rng.below(4) {
				0 => height,
				1 => height.saturating_sub(rng.below(12)),
				2 => height + rng.below(3),
				_ => rng.below(21),
			};
			let lock = if coinbase { oh + 3 } else if rng.chance(1, 8) { height + rng.below(3) } else { 0 };
			let acct = if rng.chance(1, 6) { &other } else { &parent };
			let mut value = if rng.chance(1, 3) { 1 + rng.below(200_000_000) } else { *rng.pick(&vals) };
			if running + value as u128 > u64::MAX as u128 {
				value = 1 + rng.below(1000);
			}
			running += value as u128;
			outs.push(mk_out(acct, i as u32, value, status, oh, lock, coinbase));
		}
		let minconf = *rng.pick(&minconfs);
		let elig: Vec<&OutputData> = outs.iter().filter(|o| spendable(o, &parent, height, minconf)).collect();
		let tot: u128 = elig.iter().map(|o| o.value as u128).sum();
		let mut amounts = directed_amounts(tot, elig.len());
		rng.shuffle(&mut amounts);
		amounts.truncate(24);
		for _ in 0..6 {
			amounts.push(rng.next() >> rng.below(64));
		}
		for amount in amounts {
			let p = Params {
				amount,
				includes_fee: rng.bool(),
				height,
				minconf,
				max_outputs: *rng.pick(&max_outs),
				change_outputs: *rng.pick(&change_counts),
				use_all: rng.bool(),
			};
			case_a(rep, &outs, &parent, &p, node, &kc);
		}
	}
}

// ---------------------------------------------------------------- workload B: public API

fn run_b(rep: &mut Report, a: &Args, rng: &mut Rng, w: &mut World) {
	let scratch = format!("{}/scratch", a.work);
	std::fs::create_dir_all(&scratch).unwrap();
	// history: several coinbases to w0, a few small payments back and forth
	if let Err(e) = w.mine_n(Some(0), 20) {
		rep.inconclusive(&format!("setup mining failed: {}", e));
		return;
	}
	let _ = w.wallets[0].refresh();
	for amt in [3_000_000_000u64, 1_234_567_890, 700_000_007].iter() {
		let args = InitTxArgs { amount: *amt, minimum_confirmations: 1, num_change_outputs: 2, selection_strategy_is_use_all: false, ..Default::default() };
		let r = (|| -> Result<(), libwallet::Error> {
			let s1 = w.wallets[0].init_send(args)?;
			w.wallets[0].lock_outputs(&s1)?;
			let s2 = w.wallets[1].receive(&s1, None)?;
			let s3 = w.wallets[0].finalize(&s2)?;
			w.wallets[0].post(s3.tx_or_err()?)?;
			Ok(())
		})();
		if let Err(e) = r {
			rep.inconclusive(&format!("setup send failed: {:?}", e));
			return;
		}
		let _ = w.mine(Some(0), true);
	}
	// a second account on both wallets with coins of its own, so that the source account of a
	// payment can differ from the wallet's active account (InitTxArgs.src_acct_name)
	for i in 0..2 {
		let _ = w.wallets[i].create_account("acct1");
		let _ = w.wallets[i].set_account("acct1");
		let _ = w.mine_n(Some(i), 3);
		let _ = w.wallets[i].set_account("default");
	}
	let _ = w.mine_n(None, 4);
	for i in 0..2 {
		for acct in ["acct1", "default"].iter() {
			let _ = w.wallets[i].set_account(acct);
			let _ = w.wallets[i].refresh();
		}
	}
	// so many change outputs that the minimum fee exceeds what a kernel's fee field can hold (2^40 - 1), in a wallet
	// that could afford it: estimate and late-locked initiation (no keys are derived for either) must answer with
	// an error, not crash
	for mode in [1u64, 2].iter() {
		let wal = &w.wallets[0];
		let _ = wal.set_account("default");
		let _ = wal.refresh();
		let n_chg = 105_000u32;
		let spendable = wal.info(false, 1).map(|i| i.1.amount_currently_spendable).unwrap_or(0);
		let min_fee = tx_fee(1, 1 + n_chg as usize, 1);
		let args = InitTxArgs { amount: 1_000_000_000, minimum_confirmations: 1, max_outputs: 500, num_change_outputs: n_chg, selection_strategy_is_use_all: true, estimate_only: Some(*mode == 1), late_lock: Some(*mode == 2), ..Default::default() };
		let mode_name = ["send", "estimate_only", "late_lock"][*mode as usize];
		let case = json!({"workload":"B", "scenario": "num_change_outputs so large that the minimum fee exceeds the kernel fee field", "mode": mode_name, "num_change_outputs": n_chg, "spendable": spendable.to_string(), "minimum_fee": min_fee.to_string()});
		rep.eval();
		match catch(|| wal.init_send(args.clone())) {
			Err((loc, msg)) => rep.violation(&format!("C01|panic|api|{}|fee-exceeds-the-kernel-fee-field", loc), &format!("init_send_tx({}) panicked at {}: {}", mode_name, loc, msg), case),
			Ok(Err(e)) => {
				let reached = spendable > min_fee + 1_000_000_000 && FeeFields::new(0, min_fee).is_err();
				rep.count(&format!("B:fee-exceeds-the-kernel-fee-field:{}:{}", if reached { "refused" } else { "not-reached" }, err_kind(&e)));
			}
			Ok(Ok(s)) => {
				if *mode == 2 {
					let _ = wal.cancel(None, Some(s.id));
				}
				rep.violation(&format!("C01|agreed-to-build-with-a-fee-no-kernel-can-carry|{}", mode_name), &format!("init_send_tx({}) returned Ok with fee field {} for a payment whose minimum fee is {}", mode_name, s.fee_fields.fee(), min_fee), case);
			}
		}
	}
	let n_cases = if a.thorough() { 500 } else { 40 };
	for ci in 0..n_cases {
		let wi = rng.usize(2);
		let wal = &w.wallets[wi];
		// source account: the active one (default or acct1), or named through src_acct_name while the other is active
		let src_mode = rng.below(4); // 0,1: active default; 2: src_acct_name=acct1 while default is active; 3: acct1 active
		let (active, src_name): (&str, Option<String>) = match src_mode {
			2 => ("default", Some("acct1".to_string())),
			3 => ("acct1", None),
			_ => ("default", None),
		};
		let src_label = src_name.clone().unwrap_or_else(|| active.to_string());
		let _ = wal.set_account(&src_label);
		if wal.refresh().is_err() {
			rep.inconclusive("refresh failed");
			let _ = wal.set_account("default");
			continue;
		}
		let _ = wal.set_account(active);
		if wal.refresh().is_err() {
			rep.inconclusive("refresh failed");
			let _ = wal.set_account("default");
			continue;
		}
		let height = w.node.chain().head().unwrap().height;
		let before_outs = wal.all_outputs().unwrap();
		let parent = match wal.accounts().ok().and_then(|a| a.into_iter().find(|m| m.label == src_label)) {
			Some(m) => m.path,
			None => {
				rep.inconclusive("source account missing");
				continue;
			}
		};
		let minconf = *rng.pick(&[0u64, 1, 1, 3, 10]);
		let elig: Vec<&OutputData> = before_outs.iter().filter(|o| spendable(o, &parent, height, minconf)).collect();
		let tot: u128 = elig.iter().map(|o| o.value as u128).sum();
		let mut amounts = directed_amounts(tot, std::cmp::min(elig.len(), 3));
		amounts.push(1_000_000_000);
		amounts.push(50_000_000);
		amounts.push(tot as u64 / 2);
		amounts.push(tot as u64 / 3);
		let amount = if rng.chance(1, 2) { *rng.pick(&amounts) } else { 1 + rng.below(std::cmp::max(tot as u64, 2)) };
		let includes_fee = rng.chance(1, 3);
		let mode = rng.below(4); // 0 send, 1 estimate, 2 late lock, 3 pay invoice
		let args = InitTxArgs {
			amount,
			amount_includes_fee: Some(includes_fee),
			minimum_confirmations: minconf,
			max_outputs: *rng.pick(&[0u32, 1, 2, 500, 500, 500]),
			num_change_outputs: *rng.pick(&[0u32, 1, 1, 2, 3, 5, 9, 10, 12]),
			selection_strategy_is_use_all: rng.bool(),
			estimate_only: Some(mode == 1),
			late_lock: Some(mode == 2),
			src_acct_name: src_name.clone(),
			..Default::default()
		};
		let mode_name = ["send", "estimate_only", "late_lock", "pay_invoice"][mode as usize];
		let args_j = json!({"wallet": wi, "mode": mode_name, "active_account": active, "src_acct_name": src_name, "amount": amount.to_string(), "amount_includes_fee": includes_fee,
			"minimum_confirmations": minconf, "max_outputs": args.max_outputs, "num_change_outputs": args.num_change_outputs, "use_all": args.selection_strategy_is_use_all,
			"height": height, "wallet_outputs": before_outs.iter().map(out_json).collect::<Vec<_>>()});
		let case = || json!({"workload":"B", "case": ci, "args": args_j});
		rep.eval();
		let db_before = wal.db_dump(&scratch);
		let files_before = wal.files_digest();

		// the operation
		let other = &w.wallets[1 - wi];
		// pending entries live in the source account: release them there (cancel addresses the active account)
		let cancel_all = |sid: Uuid| {
			for l in ["acct1", "default"].iter() {
				let _ = wal.set_account(l);
				let _ = wal.cancel(None, Some(sid));
			}
		};
		let res = catch(|| -> Result<(libwallet::Slate, Uuid), libwallet::Error> {
			if mode == 3 {
				let inv = other.issue_invoice(IssueInvoiceTxArgs { amount, ..Default::default() })?;
				let mut a2 = args.clone();
				a2.amount_includes_fee = None;
				a2.estimate_only = None;
				a2.late_lock = None;
				let id = inv.id;
				match wal.process_invoice(&inv, a2) {
					Ok(s) => Ok((s, id)),
					Err(e) => {
						// release the invoicer's pending entry so later cases are not affected
						let _ = other.cancel(None, Some(id));
						Err(e)
					}
				}
			} else {
				let s = wal.init_send(args.clone())?;
				let id = s.id;
				Ok((s, id))
			}
		});
		let (slate, sid) = match res {
			Err((loc, msg)) => {
				rep.violation(&format!("C01|panic|api|{}|mode={}", loc, mode), &format!("API call panicked at {}: {}", loc, msg), case());
				// the wallet may hold a poisoned state; rebuild is too expensive, continue
				continue;
			}
			Ok(Err(e)) => {
				rep.count(&format!("B:refused:{}", err_kind(&e)));
				// nothing that reserves funds may have been persisted
				let db_after = wal.db_dump(&scratch);
				let reserved = diff_reserving(&db_before, &db_after);
				if !reserved.is_empty() || wal.files_digest() != files_before {
					rep.violation("C01|failed-call-persisted-state", &format!("failed call ({:?}) changed persistent state: {:?}", e, reserved), case());
				} else {
					rep.distinct(&("B-refused", mode, err_kind(&e), includes_fee));
				}
				continue;
			}
			Ok(Ok(x)) => x,
		};
		if mode == 1 {
			// estimate only: total, fee reported; nothing persisted
			let db_after = wal.db_dump(&scratch);
			if !diff_reserving(&db_before, &db_after).is_empty() {
				rep.violation("C01|estimate-persisted-state", "estimate_only changed persistent state", case());
			}
			let fee = slate.fee_fields.fee();
			if (slate.amount as u128) < amount as u128 + if includes_fee { 0 } else { fee as u128 } {
				rep.violation("C01|estimate-inconsistent", &format!("estimate total {} < amount {} (+fee {})", slate.amount, amount, fee), case());
			}
			rep.count("B:estimated");
			rep.distinct(&("B-estimate", includes_fee, args.selection_strategy_is_use_all));
			continue;
		}
		// read the context back
		let ctx = match wal.context(&sid) {
			Ok(c) => c,
			Err(e) => {
				rep.violation("C01|no-context-after-success", &format!("{:?}", e), case());
				continue;
			}
		};
		let fee = ctx.fee.map(|f| f.fee()).unwrap_or(0);
		if mode == 2 {
			// late lock: nothing selected yet; complete the exchange and judge the reservation
			// sometimes the wallet's coins change between initiation and the late selection (another
			// send of the same account reserves one of them), so that re-selection no longer gives
			// the inputs - and possibly not the fee - foreseen at initiation
			let mut drift_id: Option<Uuid> = None;
			if rng.chance(1, 2) {
				let _ = wal.set_account(&src_label);
				let d = wal.init_send(InitTxArgs { amount: 10_000_000 + rng.below(500_000_000), minimum_confirmations: minconf, selection_strategy_is_use_all: false, ..Default::default() });
				if let Ok(ds) = d {
					if wal.lock_outputs(&ds).is_ok() {
						drift_id = Some(ds.id);
						rep.count("B:late-lock-with-coin-drift");
					}
				}
				let _ = wal.set_account(active);
			}
			let pre_fin_outs = wal.all_outputs().unwrap_or_default();
			let r = catch(|| -> Result<libwallet::Slate, libwallet::Error> {
				let s2 = other.receive(&slate, None)?;
				wal.finalize(&s2)
			});
			let release_drift = |wal: &Wallet| {
				if let Some(d) = drift_id {
					let _ = wal.set_account(&src_label);
					let _ = wal.cancel(None, Some(d));
				}
			};
			match r {
				Err((loc, msg)) => {
					rep.violation(&format!("C01|panic|late-lock-finalize|{}", loc), &msg, case());
					release_drift(wal);
					continue;
				}
				Ok(Err(e)) => {
					rep.count(&format!("B:late-lock-finalize-refused:{}", err_kind(&e)));
					if std::env::var("GWV_DEBUG").is_ok() { eprintln!("late-lock finalize refused: {:?}", e); }
					// an honest reply that cannot be completed must not leave funds reserved
					let outs_after = wal.all_outputs().unwrap_or_default();
					let newly: Vec<&OutputData> = outs_after.iter().filter(|o| o.status == OutputStatus::Locked && pre_fin_outs.iter().find(|b| b.key_id == o.key_id && b.mmr_index == o.mmr_index).map(|b| b.status != OutputStatus::Locked).unwrap_or(true)).collect();
					if !newly.is_empty() {
						let v: u128 = newly.iter().map(|o| o.value as u128).sum();
						rep.violation("C01|late-lock-refused-but-funds-reserved", &format!("late-locked finalize (honest reply) was refused with {} but left {} outputs worth {} reserved for a payment of {}", err_kind(&e), newly.len(), v, amount), case());
					}
					// whatever a refused late-locked finalization reserved must at least belong to the source account
					for o in outs_after.iter().filter(|o| o.status == OutputStatus::Locked && o.root_key_id != parent) {
						let was = before_outs.iter().find(|b| b.key_id == o.key_id && b.mmr_index == o.mmr_index);
						if was.map(|b| b.status != OutputStatus::Locked).unwrap_or(true) {
							rep.violation("C01|late-lock-reserved-output-of-another-account", &format!("late-locked finalize of a send from account {} was refused ({}) and left output {} of another account reserved", src_label, err_kind(&e), out_json(o)), case());
						}
					}
					let _ = other.cancel(None, Some(sid));
					release_drift(wal);
					cancel_all(sid);
					continue;
				}
				Ok(Ok(fin)) => {
					let txs = wal.all_txs().unwrap();
					let e = txs.iter().find(|t| t.tx_slate_id == Some(sid) && t.tx_type == libwallet::TxLogEntryType::TxSent);
					let tx = fin.tx.clone().unwrap();
					let kfee = tx.fee();
					match e {
						None => rep.violation("C01|late-lock-no-entry", "no TxSent entry after late-locked finalize", case()),
						Some(e) => {
							let outs_after = wal.all_outputs().unwrap();
							let ins: Vec<&OutputData> = outs_after.iter().filter(|o| o.tx_log_entry == Some(e.id) && o.root_key_id == e.parent_key_id && o.status == OutputStatus::Locked).collect();
							let chg: u128 = outs_after.iter().filter(|o| o.tx_log_entry == Some(e.id) && o.root_key_id == e.parent_key_id && o.status == OutputStatus::Unconfirmed).map(|o| o.value as u128).sum();
							let in_total: u128 = ins.iter().map(|o| o.value as u128).sum();
							for i in ins.iter() {
								// judged on the wallet as it was right before the late selection (an intervening send
								// may have reserved coins or, with minimum_confirmations = 0, added unconfirmed change)
								let b = pre_fin_outs.iter().find(|o| o.key_id == i.key_id && o.mmr_index == i.mmr_index);
								if b.map(|o| !spendable(o, &parent, height, minconf)).unwrap_or(true) {
									rep.violation("C01|late-lock-input-not-spendable", &format!("late-locked input {} was not spendable", out_json(i)), case());
								}
							}
							let recip = amount as u128 - if includes_fee { kfee as u128 } else { 0 };
							let n_chg = outs_after.iter().filter(|o| o.tx_log_entry == Some(e.id) && o.root_key_id == e.parent_key_id && o.status == OutputStatus::Unconfirmed).count();
							if in_total != recip + kfee as u128 + chg {
								rep.violation("C01|late-lock-conservation", &format!("inputs {} != amount {} + fee {} + change {}", in_total, recip, kfee, chg), case());
							} else if kfee < tx_fee(ins.len(), 1 + n_chg, 1) {
								rep.violation("C01|late-lock-fee-below-minimum", &format!("late-locked send: fee {} below the minimum for {} inputs / {} outputs", kfee, ins.len(), 1 + n_chg), case());
							} else {
								rep.count("B:late-lock-built");
								rep.distinct(&("B-latelock", ins.len(), includes_fee));
							}
						}
					}
					release_drift(wal);
					cancel_all(sid);
					let _ = other.cancel(None, Some(sid));
					continue;
				}
			}
		}
		// normal send / invoice payment
		let in_total: u128 = ctx.input_ids.iter().map(|i| i.2 as u128).sum();
		let ch_total: u128 = ctx.output_ids.iter().map(|i| i.2 as u128).sum();
		let mut bad = false;
		for (kid, mmr, val) in ctx.input_ids.iter() {
			let b = before_outs.iter().find(|o| o.key_id == *kid && o.mmr_index == *mmr);
			match b {
				None => {
					rep.violation("C01|input-not-a-wallet-output", "context input is not a wallet output", case());
					bad = true;
				}
				Some(o) => {
					if o.value != *val || !spendable(o, &parent, height, minconf) {
						rep.violation(&format!("C01|input-not-spendable|status={}|coinbase={}|other-account={}|immature={}", status_str(&o.status), o.is_coinbase, o.root_key_id != parent, o.lock_height > height), &format!("input {} not spendable (minconf {}, height {})", out_json(o), minconf, height), case());
						bad = true;
					}
				}
			}
		}
		if bad {
			continue;
		}
		// self-issued invoices put the payee's output into the same context only for self-sends; here the payer is another wallet
		let recipient_amount = ctx.amount as u128;
		if mode == 0 {
			if includes_fee {
				if recipient_amount + fee as u128 != amount as u128 {
					rep.violation("C01|includes-fee-amount", &format!("recipient amount {} + fee {} != A {}", recipient_amount, fee, amount), case());
				}
			} else if recipient_amount != amount as u128 {
				rep.violation("C01|amount-changed", &format!("context amount {} != A {}", recipient_amount, amount), case());
			}
			if slate.amount as u128 != recipient_amount || slate.fee_fields.fee() != fee {
				rep.violation("C01|slate-context-disagree", &format!("slate amount/fee {}/{} vs context {}/{}", slate.amount, slate.fee_fields.fee(), recipient_amount, fee), case());
			}
		} else if recipient_amount != amount as u128 {
			rep.violation("C01|amount-changed", &format!("invoice: context amount {} != invoiced {}", recipient_amount, amount), case());
		}
		if in_total != recipient_amount + fee as u128 + ch_total {
			let d = in_total as i128 - (recipient_amount + fee as u128 + ch_total) as i128;
			let class = if d > 0 && (d as u128) < 2 * args.num_change_outputs as u128 { "change-split-remainder-lost" } else { "other" };
			rep.violation(&format!("C01|conservation|{}", class), &format!("API: inputs {} != amount {} + fee {} + change {}", in_total, recipient_amount, fee, ch_total), case());
		} else if fee < tx_fee(ctx.input_ids.len(), 1 + ctx.output_ids.len(), 1) {
			rep.violation("C01|fee-below-minimum", &format!("fee {} below minimum for {} in / {} out", fee, ctx.input_ids.len(), 1 + ctx.output_ids.len()), case());
		} else if Transaction::weight_by_iok(ctx.input_ids.len() as u64, 1 + ctx.output_ids.len() as u64, 1) > grin_core::global::max_tx_weight() {
			// "many change outputs" is one of the cases in which the wallet cannot build the payment: the transaction
			// (these inputs, the change outputs plus the recipient's output, one kernel) can never be valid
			rep.violation("C01|agreed-to-build-a-transaction-exceeding-the-maximum-weight", &format!("the wallet agreed to build a payment with {} inputs and {} change outputs: weight {} exceeds the maximum {}", ctx.input_ids.len(), ctx.output_ids.len(), Transaction::weight_by_iok(ctx.input_ids.len() as u64, 1 + ctx.output_ids.len() as u64, 1), grin_core::global::max_tx_weight()), case());
		} else {
			rep.count(if mode == 0 { "B:send-built" } else { "B:invoice-paid" });
			rep.distinct(&("B-built", mode, ctx.input_ids.len(), ctx.output_ids.len(), includes_fee, args.selection_strategy_is_use_all));
			if rep.samples.len() < 5 {
				rep.sample(json!({"workload":"B","mode": mode, "amount": amount.to_string(), "includes_fee": includes_fee, "inputs": ctx.input_ids.iter().map(|i| i.2.to_string()).collect::<Vec<_>>(), "fee": fee, "change": ctx.output_ids.iter().map(|i| i.2.to_string()).collect::<Vec<_>>()}));
			}
		}
		// nothing is reserved by initiation alone: release the context by cancelling where an entry exists
		if mode == 3 {
			let _ = wal.lock_outputs(&slate);
			cancel_all(sid);
			let _ = other.cancel(None, Some(sid));
		}
	}
}

/// Keys whose change means "something reserving funds or altering the books was persisted":
/// everything except child-index bumps ('d'), confirmed height ('c') and scanned-block bookkeeping.
fn diff_reserving(a: &[(Vec<u8>, Vec<u8>)], b: &[(Vec<u8>, Vec<u8>)]) -> Vec<String> {
	use std::collections::BTreeMap;
	let ma: BTreeMap<&Vec<u8>, &Vec<u8>> = a.iter().map(|(k, v)| (k, v)).collect();
	let mb: BTreeMap<&Vec<u8>, &Vec<u8>> = b.iter().map(|(k, v)| (k, v)).collect();
	let mut d = vec![];
	let ignore = |k: &Vec<u8>| k.first() == Some(&b'd') || k.first() == Some(&b'c') || k.first() == Some(&b'l') || k.first() == Some(&b'w');
	for (k, v) in ma.iter() {
		if ignore(k) {
			continue;
		}
		match mb.get(k) {
			None => d.push(format!("deleted key {}", String::from_utf8_lossy(&k[..1]))),
			Some(w) => {
				if w != v {
					d.push(format!("changed key '{}': {} -> {}", String::from_utf8_lossy(&k[..1]), trunc(&String::from_utf8_lossy(v), 200), trunc(&String::from_utf8_lossy(w), 200)))
				}
			}
		}
	}
	for (k, v) in mb.iter() {
		if !ignore(k) && !ma.contains_key(k) {
			d.push(format!("added key '{}': {}", String::from_utf8_lossy(&k[..1]), trunc(&String::from_utf8_lossy(v), 200)));
		}
	}
	d
}

pub fn run(a: &Args) {
	let mut rep = Report::new("C01");
	let mut rng = Rng::new(a.shard_seed() ^ 0xC01);
	let mut w = World::two(&format!("{}/world", a.work));
	if let Some(rp) = &a.replay {
		let v: Value = serde_json::from_str(&std::fs::read_to_string(rp).unwrap()).unwrap();
		replay(&mut rep, &v["case"], &w.node);
		rep.write(&a.out);
		return;
	}
	let which = a.get("workload").cloned().unwrap_or_else(|| "AB".to_string());
	if which.contains('A') {
		run_a(&mut rep, a, &mut rng, &w.node.clone());
	}
	if which.contains('B') {
		run_b(&mut rep, a, &mut rng, &mut w);
	}
	rep.write(&a.out);
}

fn replay(rep: &mut Report, case: &Value, node: &DirectNode) {
	if case["workload"] != "A" {
		rep.inconclusive("replay of workload B cases re-runs the shard with the recorded seed (use the shard/seed in the replay file)");
		return;
	}
	let kc = ExtKeychain::from_seed(&[3u8; 32], true).unwrap();
	let parent = Identifier::from_hex(case["account"].as_str().unwrap()).unwrap();
	let mut outs = vec![];
	for (i, o) in case["outputs"].as_array().unwrap().iter().enumerate() {
		let st = STATUSES.iter().find(|s| status_str(s) == o["status"].as_str().unwrap()).unwrap().clone();
		let acct = Identifier::from_hex(o["acct"].as_str().unwrap()).unwrap();
		let mut od = mk_out(&acct, i as u32, o["value"].as_str().unwrap().parse().unwrap(), st, o["height"].as_u64().unwrap(), o["lock_height"].as_u64().unwrap(), o["coinbase"].as_bool().unwrap());
		od.key_id = Identifier::from_hex(o["key"].as_str().unwrap()).unwrap();
		outs.push(od);
	}
	let p = &case["params"];
	let params = Params {
		amount: p["amount"].as_str().unwrap().parse().unwrap(),
		includes_fee: p["amount_includes_fee"].as_bool().unwrap(),
		height: p["height"].as_u64().unwrap(),
		minconf: p["minimum_confirmations"].as_u64().unwrap(),
		max_outputs: p["max_outputs"].as_u64().unwrap() as usize,
		change_outputs: p["num_change_outputs"].as_u64().unwrap() as usize,
		use_all: p["use_all"].as_bool().unwrap(),
	};
	case_a(rep, &outs, &parent, &params, node, &kc);
}
