//! C06 A crash at any point leaves a loadable, consistent, recoverable wallet.
//!
//! Every operation of a scenario is executed in a child process started from a directory snapshot
//! under the persistence interposer (shim/vpshim.c). Pass 1 counts and logs the persistence calls;
//! pass 2 kills the child (or fails the call) at every index. The parent then reopens the directory
//! and runs the recovery oracle.

use crate::util::*;
use crate::world::*;
use grin_wallet_libwallet as libwallet;
use grin_wallet_libwallet::{InitTxArgs, IssueInvoiceTxArgs, OutputStatus, Slate, TxLogEntryType};
use serde_json::{json, Value};
use std::collections::BTreeSet;
use std::process::Command;

pub const SPECS: [(&str, usize, bool, &str); 2] = [("w0", 0, false, ""), ("w1", 1, false, "")];

fn specs() -> Vec<(String, usize, bool, String)> {
	SPECS.iter().map(|s| (s.0.to_string(), s.1, s.2, s.3.to_string())).collect()
}

fn slate_to_json(s: &Slate) -> Value {
	serde_json::to_value(s).unwrap()
}
fn slate_from_json(v: &Value) -> Option<Slate> {
	Slate::deserialize_upgrade(&v.to_string()).ok()
}

/// Executed in the child: open the world, touch the arm file, run one operation, write the result.
pub fn child(a: &Args) {
	let dir = a.get("world").cloned().unwrap();
	let op = a.get("op").cloned().unwrap();
	let params: Value = serde_json::from_str(&std::fs::read_to_string(a.get("params").unwrap()).unwrap()).unwrap();
	let arm = a.get("arm").cloned().unwrap();
	let result_file = a.get("result").cloned().unwrap();
	let w = match World::open_existing(&dir, &specs()) {
		Ok(w) => w,
		Err(e) => {
			std::fs::write(&result_file, json!({"status": "harness-open-failed", "error": format!("{:?}", e)}).to_string()).unwrap();
			std::process::exit(3);
		}
	};
	let wi = params["wallet"].as_u64().unwrap_or(0) as usize;
	let wal = &w.wallets[wi];
	if let Some(acct) = params["account"].as_str() {
		let _ = wal.set_account(acct);
	}
	let slate = params.get("slate").and_then(slate_from_json);
	std::fs::write(&arm, b"armed").unwrap();
	let r: Result<Result<Value, libwallet::Error>, (String, String)> = catch(|| -> Result<Value, libwallet::Error> {
		match op.as_str() {
			"init_send" => {
				let args = InitTxArgs {
					amount: params["amount"].as_u64().unwrap(),
					minimum_confirmations: 1,
					num_change_outputs: params["change"].as_u64().unwrap_or(1) as u32,
					selection_strategy_is_use_all: false,
					late_lock: Some(params["late_lock"].as_bool().unwrap_or(false)),
					..Default::default()
				};
				Ok(slate_to_json(&wal.init_send(args)?))
			}
			"lock" => {
				wal.lock_outputs(slate.as_ref().unwrap())?;
				Ok(Value::Null)
			}
			"receive" => Ok(slate_to_json(&wal.receive(slate.as_ref().unwrap(), params["dest"].as_str())?)),
			"finalize" => Ok(slate_to_json(&wal.finalize(slate.as_ref().unwrap())?)),
			"foreign_finalize" => Ok(slate_to_json(&wal.foreign_finalize(slate.as_ref().unwrap())?)),
			"issue_invoice" => Ok(slate_to_json(&wal.issue_invoice(IssueInvoiceTxArgs { amount: params["amount"].as_u64().unwrap(), ..Default::default() })?)),
			"process_invoice" => {
				let args = InitTxArgs { minimum_confirmations: 1, num_change_outputs: 1, selection_strategy_is_use_all: false, ..Default::default() };
				Ok(slate_to_json(&wal.process_invoice(slate.as_ref().unwrap(), args)?))
			}
			"cancel" => {
				wal.cancel(None, Some(slate.as_ref().unwrap().id))?;
				Ok(Value::Null)
			}
			"refresh" => Ok(json!(wal.refresh()?)),
			"scan" => {
				wal.scan(None, params["delete_unconfirmed"].as_bool().unwrap_or(false))?;
				Ok(Value::Null)
			}
			"create_account" => {
				wal.create_account(params["label"].as_str().unwrap())?;
				Ok(Value::Null)
			}
			"build_coinbase" => {
				let bf = libwallet::BlockFees { fees: 0, key_id: None, height: params["height"].as_u64().unwrap() };
				let cb = wal.build_coinbase(&bf)?;
				Ok(json!(cb.key_id.map(|k| idstr(&k))))
			}
			_ => Err(libwallet::Error::GenericError("unknown op".into())),
		}
	});
	let out = match r {
		Ok(Ok(v)) => json!({"status": "ok", "value": v}),
		Ok(Err(e)) => json!({"status": "err", "kind": err_kind(&e), "error": format!("{:?}", e)}),
		Err((loc, msg)) => json!({"status": "panic", "loc": loc, "msg": msg}),
	};
	std::fs::write(&result_file, out.to_string()).unwrap();
	std::process::exit(0);
}

struct Step {
	op: &'static str,
	params: Value,
}

struct ChildOut {
	exit: Option<i32>,
	signal: Option<i32>,
	result: Option<Value>,
	log: Vec<String>,
}

fn run_child(a: &Args, dir: &str, step: &Step, at: usize, mode: &str, tag: &str) -> ChildOut {
	use std::os::unix::process::ExitStatusExt;
	let gwv = a.get("gwv").cloned().unwrap_or_else(|| std::env::current_exe().unwrap().to_string_lossy().to_string());
	let shim = a.get("shim").cloned().unwrap_or_default();
	let side = format!("{}/side-{}", a.work, tag);
	let _ = std::fs::remove_dir_all(&side);
	std::fs::create_dir_all(&side).unwrap();
	let params_f = format!("{}/params.json", side);
	std::fs::write(&params_f, step.params.to_string()).unwrap();
	let log_f = format!("{}/calls.log", side);
	let res_f = format!("{}/result.json", side);
	let arm_f = format!("{}/armed", side);
	let abs = std::fs::canonicalize(dir).unwrap().to_string_lossy().to_string();
	let st = Command::new(&gwv)
		.args(&["c06child", "--world", &abs, "--op", step.op, "--params", &params_f, "--arm", &arm_f, "--result", &res_f])
		.env("LD_PRELOAD", &shim)
		.env("VP_PREFIX", &abs)
		.env("VP_ARM", &arm_f)
		.env("VP_LOG", &log_f)
		.env("VP_AT", at.to_string())
		.env("VP_MODE", mode)
		.stdout(std::process::Stdio::null())
		.stderr(std::process::Stdio::null())
		.status();
	let (exit, signal) = match st {
		Ok(s) => (s.code(), s.signal()),
		Err(_) => (None, None),
	};
	let result = std::fs::read_to_string(&res_f).ok().and_then(|s| serde_json::from_str(&s).ok());
	let log = std::fs::read_to_string(&log_f).unwrap_or_default().lines().map(|l| l.to_string()).collect();
	let _ = std::fs::remove_dir_all(&side);
	ChildOut { exit, signal, result, log }
}

fn short_path(l: &str) -> String {
	// "idx op path len" -> "op file len"
	let p: Vec<&str> = l.split(' ').collect();
	if p.len() < 4 {
		return l.to_string();
	}
	let file = p[2].rsplit('/').next().unwrap_or("");
	let file = if file.ends_with(".grintx") { "<slate>.grintx" } else { file };
	let wallet = if p[2].contains("/w0/") { "w0" } else if p[2].contains("/w1/") { "w1" } else { "?" };
	format!("{} {}:{} {}", p[1], wallet, file, p[3])
}

/// canonical, id-free view of a wallet used to compare an interrupted-then-completed run with the reference
fn canon(w: &Wallet) -> (Vec<(String, String, u64, u64)>, Vec<(String, bool, u64, u64)>) {
	let mut o: Vec<(String, String, u64, u64)> = w.all_outputs().unwrap_or_default().iter().map(|o| (idstr(&o.key_id), status_str(&o.status).to_string(), o.value, o.height)).collect();
	o.sort();
	let mut t: Vec<(String, bool, u64, u64)> = w.all_txs().unwrap_or_default().iter().map(|t| (type_str(&t.tx_type).to_string(), t.confirmed, t.amount_credited, t.amount_debited)).collect();
	t.sort();
	(o, t)
}

/// The recovery oracle, run by the parent on the directory the child left behind.
/// `baseline`: spendable(minconf 1) of [w0, w1] before the transaction of this scenario began (None = do not judge).
fn recovery_oracle(dir: &str, slate_id: Option<uuid::Uuid>, baseline: Option<[u64; 2]>, rerun: Option<(&Step, &(Vec<(String, String, u64, u64)>, Vec<(String, bool, u64, u64)>))>) -> Vec<(String, String)> {
	let mut v: Vec<(String, String)> = vec![];
	let w = match catch(|| World::open_existing(dir, &specs())) {
		Ok(Ok(w)) => w,
		Ok(Err(e)) => {
			v.push(("reopen-failed".into(), format!("wallet/chain directory cannot be reopened: {:?}", e)));
			return v;
		}
		Err((loc, msg)) => {
			v.push((format!("reopen-panicked|{}", loc), format!("reopening panicked at {}: {}", loc, msg)));
			return v;
		}
	};
	for (wi, wal) in w.wallets.iter().enumerate() {
		// every query answers without crashing
		let q = catch(|| {
			let _ = wal.outputs(true, false);
			let _ = wal.txs(false);
			let _ = wal.info(false, 1);
			let txs = wal.all_txs().unwrap_or_default();
			let mut stored_errs = vec![];
			for t in txs.iter() {
				if t.stored_tx.is_some() {
					match wal.get_stored_tx(None, t.tx_slate_id.as_ref()) {
						Err(e) => stored_errs.push(format!("{:?}", e)),
						// "no stored transaction" although a (partially written) file is there: silent loss
						Ok(None) => {
							let f = format!("{}/saved_txs/{}", wal.data_dir(), t.stored_tx.clone().unwrap_or_default());
							if std::path::Path::new(&f).exists() {
								stored_errs.push(format!("SILENT-LOSS entry {} file {} ({} bytes)", t.id, t.stored_tx.clone().unwrap_or_default(), std::fs::metadata(&f).map(|m| m.len()).unwrap_or(0)));
							}
						}
						Ok(Some(_)) => {}
					}
				}
			}
			stored_errs
		});
		match q {
			Err((loc, msg)) => {
				v.push((format!("query-panicked|{}", loc), format!("wallet {}: a query panicked after recovery at {}: {}", wi, loc, msg)));
				continue;
			}
			Ok(errs) => {
				for e in errs.iter().filter(|e| e.starts_with("SILENT-LOSS")) {
					v.push(("stored-tx-partially-written-answered-as-absent".into(), format!("wallet {}: get_stored_tx answers 'none' for a log entry whose stored-transaction file exists but is incomplete: {}", wi, e)));
				}
			}
		}
		let outs = wal.all_outputs().unwrap_or_default();
		let txs = wal.all_txs().unwrap_or_default();
		let live: Vec<&libwallet::TxLogEntry> = txs.iter().filter(|t| t.tx_type == TxLogEntryType::TxSent && !t.confirmed).collect();
		for o in outs.iter().filter(|o| o.status == OutputStatus::Locked) {
			let n = live.iter().filter(|t| Some(t.id) == o.tx_log_entry && t.parent_key_id == o.root_key_id).count();
			if n != 1 {
				v.push(("locked-output-without-live-transaction".into(), format!("wallet {}: output {} is Locked but {} live sent entries claim it", wi, idstr(&o.key_id), n)));
			}
		}
		for t in live.iter() {
			let ins: Vec<_> = outs.iter().filter(|o| o.tx_log_entry == Some(t.id) && o.root_key_id == t.parent_key_id && (o.status == OutputStatus::Locked || o.status == OutputStatus::Spent)).collect();
			let change: Vec<_> = outs.iter().filter(|o| o.tx_log_entry == Some(t.id) && o.root_key_id == t.parent_key_id && (o.status == OutputStatus::Unconfirmed || o.status == OutputStatus::Unspent) && !o.is_coinbase).collect();
			let val: u64 = ins.iter().map(|o| o.value).sum();
			if ins.len() != t.num_inputs || val != t.amount_debited {
				v.push(("reservation-partial|inputs".into(), format!("wallet {}: live sent entry {} logs {} inputs / {} but {} / {} are locked or spent", wi, t.id, t.num_inputs, t.amount_debited, ins.len(), val)));
			}
			let cval: u64 = change.iter().map(|o| o.value).sum();
			if change.len() != t.num_outputs || cval != t.amount_credited {
				v.push(("reservation-partial|change".into(), format!("wallet {}: live sent entry {} logs {} change outputs / {} but {} / {} exist", wi, t.id, t.num_outputs, t.amount_credited, change.len(), cval)));
			}
		}
		// key paths: no two records share a path; the next index lies beyond every used one
		let mut paths = BTreeSet::new();
		for o in outs.iter() {
			if !paths.insert(idstr(&o.key_id)) {
				v.push(("C15-two-records-share-a-path".into(), format!("wallet {}: two output records share path {}", wi, idstr(&o.key_id))));
			}
		}
		for acct in wal.accounts().unwrap_or_default() {
			let next = wal.child_index(&acct.path).unwrap_or(0);
			let max_used = outs.iter().filter(|o| o.key_id.parent_path() == acct.path).map(|o| o.key_id.to_path().last_path_index()).max();
			if let Some(m) = max_used {
				if next <= m {
					v.push(("C15-next-path-not-beyond-used".into(), format!("wallet {} account {}: next derivation index {} <= highest used {}", wi, acct.label, next, m)));
				}
			}
		}
	}
	// refresh / scan: completing the interrupted operation must reach the reference state
	if let Some((step, reference)) = rerun {
		let wi = step.params["wallet"].as_u64().unwrap_or(0) as usize;
		let r = catch(|| match step.op {
			"refresh" => w.wallets[wi].refresh().map(|_| ()),
			"scan" => w.wallets[wi].scan(None, step.params["delete_unconfirmed"].as_bool().unwrap_or(false)),
			_ => Ok(()),
		});
		match r {
			Err((loc, msg)) => v.push((format!("rerun-panicked|{}", loc), format!("re-running {} after the crash panicked: {}", step.op, msg))),
			Ok(Err(e)) => v.push((format!("rerun-failed|{}", err_kind(&e)), format!("re-running {} after the crash failed: {:?}", step.op, e))),
			Ok(Ok(())) => {
				let c = canon(&w.wallets[wi]);
				if c != *reference {
					v.push((format!("rerun-differs-from-reference|{}", step.op), format!("after the crash, completing {} gives a state different from the uninterrupted run: outputs {:?} vs {:?}; entries {:?} vs {:?}", step.op, c.0, reference.0, c.1, reference.1)));
				}
			}
		}
	}
	// every pending transaction can be cancelled, restoring the pre-transaction spendable balance
	if let (Some(id), Some(base)) = (slate_id, baseline) {
		for (wi, wal) in w.wallets.iter().enumerate() {
			let pending: Vec<libwallet::TxLogEntry> = wal.all_txs().unwrap_or_default().into_iter().filter(|t| t.tx_slate_id == Some(id) && !t.confirmed && (t.tx_type == TxLogEntryType::TxSent || t.tx_type == TxLogEntryType::TxReceived)).collect();
			for t in pending.iter() {
				let acct = wal.accounts().unwrap_or_default().into_iter().find(|a| a.path == t.parent_key_id).map(|a| a.label).unwrap_or("default".into());
				let _ = wal.set_account(&acct);
				match catch(|| wal.cancel(Some(t.id), None)) {
					Err((loc, msg)) => v.push((format!("cancel-panicked|{}", loc), format!("wallet {}: cancelling pending entry {} panicked: {}", wi, t.id, msg))),
					Ok(Err(e)) => v.push((format!("cancel-failed|{}", err_kind(&e)), format!("wallet {}: pending entry {} ({}) cannot be cancelled: {:?}", wi, t.id, type_str(&t.tx_type), e))),
					Ok(Ok(())) => {}
				}
			}
			let _ = wal.set_account("default");
			match wal.info(true, 1) {
				Ok((true, info)) => {
					if info.amount_currently_spendable != base[wi] || info.amount_locked != 0 {
						v.push(("balance-not-restored".into(), format!("wallet {}: after cancelling everything the interrupted operation left, spendable = {} (locked {}), expected the pre-transaction {}", wi, info.amount_currently_spendable, info.amount_locked, base[wi])));
					}
				}
				Ok((false, _)) => {}
				Err(e) => v.push((format!("refresh-after-recovery-failed|{}", err_kind(&e)), format!("wallet {}: {:?}", wi, e))),
			}
		}
	}
	v
}

fn spendables(w: &World) -> [u64; 2] {
	let mut r = [0u64; 2];
	for i in 0..2 {
		let _ = w.wallets[i].set_account("default");
		r[i] = w.wallets[i].info(true, 1).map(|x| x.1.amount_currently_spendable).unwrap_or(0);
	}
	r
}

pub fn run(a: &Args) {
	let mut rep = Report::new("C06");
	let mut rng = Rng::new(a.shard_seed() ^ 0xC06);
	let shim = a.get("shim").cloned().unwrap_or_default();
	if shim.is_empty() || !std::path::Path::new(&shim).exists() {
		rep.inconclusive("interposer not built");
		rep.write(&a.out);
		return;
	}
	// ---------------- base world
	let base = format!("{}/base", a.work);
	let mut w = World::create(&base, &[WalletSpec { name: "w0".into(), mnemonic_idx: 0, masked: false, password: "".into() }, WalletSpec { name: "w1".into(), mnemonic_idx: 1, masked: false, password: "".into() }]);
	w.mine_n(Some(0), 5).unwrap();
	w.mine_n(Some(1), 2).unwrap();
	w.mine_n(None, 3).unwrap();
	let baseline = spendables(&w);
	w.close();
	drop(w);

	// ---------------- scenarios: list of steps; `{slate}` is filled from the previous result
	let amount = 7_000_000_000u64 + rng.below(1_000_000_000);
	let scenarios: Vec<(&str, Vec<Step>)> = vec![
		(
			"send",
			vec![
				Step { op: "init_send", params: json!({"wallet":0,"amount":amount,"change":2}) },
				Step { op: "lock", params: json!({"wallet":0,"slate":"{prev:init_send}"}) },
				Step { op: "receive", params: json!({"wallet":1,"slate":"{prev:init_send}"}) },
				Step { op: "finalize", params: json!({"wallet":0,"slate":"{prev:receive}"}) },
				Step { op: "cancel", params: json!({"wallet":0,"slate":"{prev:init_send}"}) },
			],
		),
		(
			"invoice",
			vec![
				Step { op: "issue_invoice", params: json!({"wallet":1,"amount":amount}) },
				Step { op: "process_invoice", params: json!({"wallet":0,"slate":"{prev:issue_invoice}"}) },
				Step { op: "lock", params: json!({"wallet":0,"slate":"{prev:process_invoice}"}) },
				Step { op: "foreign_finalize", params: json!({"wallet":1,"slate":"{prev:process_invoice}"}) },
			],
		),
		(
			"late-lock",
			vec![
				Step { op: "init_send", params: json!({"wallet":0,"amount":amount,"change":1,"late_lock":true}) },
				Step { op: "receive", params: json!({"wallet":1,"slate":"{prev:init_send}"}) },
				Step { op: "finalize", params: json!({"wallet":0,"slate":"{prev:receive}"}) },
			],
		),
		(
			"self-send",
			vec![
				Step { op: "init_send", params: json!({"wallet":0,"amount":amount,"change":1}) },
				Step { op: "lock", params: json!({"wallet":0,"slate":"{prev:init_send}"}) },
				Step { op: "receive", params: json!({"wallet":0,"slate":"{prev:init_send}","dest":"default"}) },
				Step { op: "finalize", params: json!({"wallet":0,"slate":"{prev:receive}"}) },
			],
		),
		(
			"bookkeeping",
			vec![
				Step { op: "create_account", params: json!({"wallet":0,"label":"second"}) },
				Step { op: "build_coinbase", params: json!({"wallet":0,"height":11}) },
				Step { op: "refresh", params: json!({"wallet":1}) },
				Step { op: "scan", params: json!({"wallet":0,"delete_unconfirmed":false}) },
				Step { op: "scan", params: json!({"wallet":1,"delete_unconfirmed":true}) },
			],
		),
	];
	// a scan that drops pending transactions while a send with several inputs is pending
	let mut scenarios = scenarios;
	scenarios.push((
		"scan-with-pending",
		vec![
			Step { op: "init_send", params: json!({"wallet":0,"amount":130_000_000_000u64,"change":2}) },
			Step { op: "lock", params: json!({"wallet":0,"slate":"{prev:init_send}"}) },
			Step { op: "scan", params: json!({"wallet":0,"delete_unconfirmed":true}) },
		],
	));
	let quick_scenarios: BTreeSet<&str> = ["send", "invoice", "late-lock", "self-send", "bookkeeping", "scan-with-pending"].iter().cloned().collect();

	let mut case_idx = 0usize;
	let mut seqs: Vec<Value> = vec![];
	for (sname, steps) in scenarios.iter() {
		if !a.thorough() && !quick_scenarios.contains(sname) {
			continue;
		}
		// current snapshot = directory holding the state before the next step
		let mut cur = format!("{}/snap-{}-0", a.work, sname);
		copy_dir(std::path::Path::new(&base), std::path::Path::new(&cur)).unwrap();
		let mut results: std::collections::BTreeMap<String, Value> = Default::default();
		let mut slate_id: Option<uuid::Uuid> = None;
		for (k, step0) in steps.iter().enumerate() {
			// fill parameters
			let mut params = step0.params.clone();
			if let Some(s) = params["slate"].as_str() {
				if let Some(name) = s.strip_prefix("{prev:").and_then(|x| x.strip_suffix("}")) {
					match results.get(name) {
						Some(v) => params["slate"] = v.clone(),
						None => {
							rep.inconclusive(&format!("{}: missing result of {}", sname, name));
							break;
						}
					}
				}
			}
			let step = Step { op: step0.op, params };
			// ---- pass 1: uninterrupted reference run on a copy, counting persistence calls
			let refdir = format!("{}/ref-{}-{}", a.work, sname, k);
			copy_dir(std::path::Path::new(&cur), std::path::Path::new(&refdir)).unwrap();
			let r = run_child(a, &refdir, &step, 0, "count", &format!("{}-{}-ref", sname, k));
			let status = r.result.as_ref().map(|v| v["status"].as_str().unwrap_or("").to_string()).unwrap_or_default();
			if status != "ok" {
				rep.inconclusive(&format!("{} step {} ({}) failed in the uninterrupted run: {:?} exit {:?}", sname, k, step.op, r.result, r.exit));
				let _ = std::fs::remove_dir_all(&refdir);
				break;
			}
			let value = r.result.as_ref().unwrap()["value"].clone();
			if value.is_object() {
				results.insert(step.op.to_string(), value.clone());
				if slate_id.is_none() {
					slate_id = value["id"].as_str().and_then(|s| uuid::Uuid::parse_str(s).ok());
				}
			}
			let ncalls = r.log.len();
			let seq: Vec<String> = r.log.iter().map(|l| short_path(l)).collect();
			if a.shard == 0 {
				seqs.push(json!({"scenario": sname, "step": step.op, "persistence_calls": seq}));
			}
			rep.count_n(&format!("persistence-calls:{}:{}", sname, step.op), ncalls as u64);
			// reference canonical state for refresh/scan
			let reference = if step.op == "refresh" || step.op == "scan" {
				let wi = step.params["wallet"].as_u64().unwrap_or(0) as usize;
				World::open_existing(&refdir, &specs()).ok().map(|rw| canon(&rw.wallets[wi]))
			} else {
				None
			};
			// ---- pass 2: every index x mode
			let mut modes: Vec<(usize, String)> = vec![];
			for n in 1..=ncalls {
				modes.push((n, "kill-before".into()));
				modes.push((n, "fail:5".into()));
				modes.push((n, "fail:28".into()));
				let l = &r.log[n - 1];
				let is_write = l.contains(" write ") || l.contains(" pwrite ");
				if is_write && l.contains(".grintx") {
					let len: usize = l.rsplit(' ').next().and_then(|x| x.parse().ok()).unwrap_or(0);
					let ks: Vec<usize> = if a.thorough() { (0..len).step_by(std::cmp::max(len / 40, 1)).collect() } else { vec![0, 1, len / 2, len.saturating_sub(1)] };
					for kk in ks {
						modes.push((n, format!("short:{}", kk)));
					}
				}
			}
			modes.push((ncalls, "kill-after".into()));
			for (n, mode) in modes {
				case_idx += 1;
				if case_idx % a.nshards != a.shard {
					continue;
				}
				rep.eval();
				let cdir = format!("{}/case", a.work);
				let _ = std::fs::remove_dir_all(&cdir);
				copy_dir(std::path::Path::new(&cur), std::path::Path::new(&cdir)).unwrap();
				let c = run_child(a, &cdir, &step, n, &mode, "case");
				let case = || json!({"job": "c06", "scenario": sname, "step_index": k, "operation": step.op, "persistence_call_index": n, "mode": mode, "call": r.log.get(n - 1).map(|l| short_path(l)), "child_exit": c.exit, "child_signal": c.signal, "child_result": c.result});
				let killed = c.signal == Some(9);
				let is_fail = mode.starts_with("fail:");
				if is_fail {
					// The statement asks for a consistent, recoverable wallet after a failing write; whether
					// the live process answers with an error or stops (a panic after LMDB reports a fatal
					// environment error is fail-stop) is recorded, not judged: the recovery oracle below
					// decides on the state it leaves behind.
					match (&c.result, c.signal) {
						(Some(res), None) => {
							let st = res["status"].as_str().unwrap_or("");
							rep.count(&format!("fail-mode:{}", st));
							if st == "panic" {
								rep.note(&format!("fail-stop on a failing write (not a violation): {} at {}", step.op, res["loc"].as_str().unwrap_or("?")));
							}
						}
						(_, Some(sig)) => {
							rep.count(&format!("fail-mode:signal-{}", sig));
						}
						_ => {
							rep.inconclusive(&format!("child produced no result (exit {:?})", c.exit));
							continue;
						}
					}
				} else if !killed {
					// the injected kill did not fire (operation made fewer calls this time): harmless
					rep.count("kill-not-reached");
				}
				let rerun = reference.as_ref().map(|rf| (&step, rf));
				let base_for = if step.op == "refresh" || step.op == "scan" || step.op == "create_account" || step.op == "build_coinbase" { None } else { Some(baseline) };
				let viols = recovery_oracle(&cdir, slate_id, base_for, rerun);
				for (sig, what) in viols.iter() {
					let s = if sig.starts_with("C15-") { format!("C06|{}", sig) } else { format!("C06|{}|op={}", sig, step.op) };
					rep.violation(&s, &format!("{} [{} step {} call {} {}]", what, sname, step.op, n, mode), case());
				}
				rep.count(&format!("mode:{}", mode.split(':').next().unwrap_or("")));
				rep.distinct(&(sname.to_string(), k, n, mode.clone()));
				if rep.samples.len() < 4 && viols.is_empty() {
					rep.sample(case());
				}
				let _ = std::fs::remove_dir_all(&cdir);
			}
			// advance: the reference directory becomes the next snapshot
			let _ = std::fs::remove_dir_all(&cur);
			cur = refdir;
		}
		let _ = std::fs::remove_dir_all(&cur);
	}

	// ---------------- offline truncations of stored-tx and seed files (every length)
	{
		let tdir = format!("{}/trunc", a.work);
		copy_dir(std::path::Path::new(&base), std::path::Path::new(&tdir)).unwrap();
		if let Ok(mut tw) = World::open_existing(&tdir, &specs()) {
			let r = (|| -> Result<(), libwallet::Error> {
				let s1 = tw.wallets[0].init_send(InitTxArgs { amount, minimum_confirmations: 1, ..Default::default() })?;
				tw.wallets[0].lock_outputs(&s1)?;
				let p = format!("{}/saved_txs/{}.grintx", tw.wallets[0].data_dir(), s1.id);
				let full = std::fs::read(&p).unwrap_or_default();
				for len in 0..full.len() {
					if len % a.nshards != a.shard {
						continue;
					}
					std::fs::write(&p, &full[..len]).unwrap();
					rep.eval();
					match catch(|| tw.wallets[0].get_stored_tx(None, Some(&s1.id))) {
						Err((loc, msg)) => rep.violation(&format!("C06|truncated-stored-tx-panics|{}", loc), &format!("get_stored_tx panicked on a stored transaction truncated to {} of {} bytes: {}", len, full.len(), msg), json!({"job":"c06","file":"grintx","length":len})),
						Ok(Ok(Some(_))) => rep.violation("C06|truncated-stored-tx-accepted", &format!("a stored transaction truncated to {} of {} bytes was returned as valid (silent loss)", len, full.len()), json!({"job":"c06","file":"grintx","length":len})),
						Ok(Ok(None)) => rep.violation("C06|truncated-stored-tx-silently-missing", &format!("a stored transaction file truncated to {} of {} bytes is answered with 'no stored transaction' instead of an error (silent loss)", len, full.len()), json!({"job":"c06","file":"grintx","length":len})),
						Ok(Err(_)) => rep.count("truncation:grintx-reported-as-error"),
					}
					rep.distinct(&("trunc-grintx", len));
				}
				std::fs::write(&p, &full).unwrap();
				Ok(())
			})();
			if let Err(e) = r {
				rep.inconclusive(&format!("truncation setup failed: {:?}", e));
			}
			let node = tw.node.clone();
			tw.wallets.clear();
			let seedp = format!("{}/w1/wallet_data/wallet.seed", tdir);
			let full = std::fs::read(&seedp).unwrap_or_default();
			for len in 0..full.len() {
				if len % a.nshards != a.shard {
					continue;
				}
				std::fs::write(&seedp, &full[..len]).unwrap();
				rep.eval();
				match catch(|| Wallet::open(node.clone(), &format!("{}/w1", tdir), "w1", MNEMONICS[1], "", false)) {
					Err((loc, msg)) => rep.violation(&format!("C06|truncated-seed-panics|{}", loc), &format!("opening a wallet whose seed file is truncated to {} of {} bytes panicked: {}", len, full.len(), msg), json!({"job":"c06","file":"seed","length":len})),
					Ok(Ok(_)) => rep.violation("C06|truncated-seed-accepted", &format!("a seed file truncated to {} bytes opened", len), json!({"job":"c06","file":"seed","length":len})),
					Ok(Err(_)) => rep.count("truncation:seed-reported-as-error"),
				}
				rep.distinct(&("trunc-seed", len));
			}
		}
		let _ = std::fs::remove_dir_all(&tdir);
	}
	if !seqs.is_empty() {
		rep.extra.insert("observed_persistence_call_sequences".into(), Value::Array(seqs));
	}
	rep.exhaustive = Some(true);
	let _ = std::fs::remove_dir_all(&base);
	rep.write(&a.out);
}
