//! C17 Expired slates are refused and expired pending transactions are released.

use crate::util::*;
use crate::world::*;
use grin_wallet_libwallet as libwallet;
use grin_wallet_libwallet::{InitTxArgs, IssueInvoiceTxArgs, OutputStatus, Slate, TxLogEntryType};
use serde_json::json;

fn is_expired_err(e: &libwallet::Error) -> bool {
	matches!(e, libwallet::Error::TransactionExpired)
}

fn digest(w: &Wallet) -> u64 {
	w.projection().map(|p| hash64(&(p.outs, p.txs))).unwrap_or(0)
}

struct Ctx<'a> {
	w: &'a mut World,
	rep: &'a mut Report,
}

impl<'a> Ctx<'a> {
	/// make both wallets observe the current tip on their active (default) account
	fn observe(&mut self) -> Option<u64> {
		for i in 0..2 {
			match self.w.wallets[i].info(true, 1) {
				Ok((true, _)) => {}
				_ => return None,
			}
		}
		let h = self.w.height();
		for i in 0..2 {
			if self.w.wallets[i].last_confirmed_height().ok()? != h {
				return None;
			}
		}
		Some(h)
	}

	fn fund(&mut self) {
		// (bounded: a wallet whose refresh keeps failing must not turn into an endless mining loop)
		for i in 0..2 {
			let mut guard = 0;
			while self.w.wallets[i].info(true, 1).map(|x| x.1.amount_currently_spendable).unwrap_or(0) < 360_000_000_000 && guard < 14 {
				if self.w.mine(Some(i), true).is_err() {
					break;
				}
				guard += 1;
			}
		}
	}

	fn cleanup(&mut self) {
		for i in 0..2 {
			if let Ok(txs) = self.w.wallets[i].all_txs() {
				for t in txs {
					if !t.confirmed && (t.tx_type == TxLogEntryType::TxSent || t.tx_type == TxLogEntryType::TxReceived) {
						if self.w.wallets[i].cancel(Some(t.id), None).is_err() {
							// the owner-level cancel refreshes first; if that refresh fails the pending transaction is
							// released through the internal function so that later cases start from a clean wallet
							let wal = &self.w.wallets[i];
							let parent = t.parent_key_id.clone();
							let _ = (|| -> Result<(), libwallet::Error> {
								with_backend!(wal, b, { libwallet::verif::tx::cancel_tx(&mut **b, wal.m(), &parent, Some(t.id), None) })
							})();
						}
					}
				}
			}
		}
		self.w.node.st.lock().pool.clear();
	}
}

/// which step of the exchange is exercised at/around the cutoff
#[derive(Clone, Copy, Debug, PartialEq)]
enum At {
	Receive,
	Finalize,
	PayInvoice,
	FinalizeInvoice,
}

fn step_case(cx: &mut Ctx, rng: &mut Rng, at: At, delta: i64, special: Option<u64>) {
	cx.fund();
	cx.cleanup();
	let h0 = match cx.observe() {
		Some(h) => h,
		None => {
			cx.rep.inconclusive("could not observe the tip");
			return;
		}
	};
	let amount = 1_000_000_000 + rng.below(5_000_000_000);
	// build the slates of the exchange up to the step under test, with a ttl we control
	let r = (|| -> Result<(Slate, usize), libwallet::Error> {
		match at {
			At::Receive => {
				let s1 = cx.w.wallets[0].init_send(InitTxArgs { amount, minimum_confirmations: 1, ttl_blocks: Some(1000), ..Default::default() })?;
				cx.w.wallets[0].lock_outputs(&s1)?;
				Ok((s1, 1))
			}
			At::Finalize => {
				let s1 = cx.w.wallets[0].init_send(InitTxArgs { amount, minimum_confirmations: 1, ttl_blocks: Some(1000), ..Default::default() })?;
				cx.w.wallets[0].lock_outputs(&s1)?;
				let s2 = cx.w.wallets[1].receive(&s1, None)?;
				Ok((s2, 0))
			}
			At::PayInvoice => {
				let s1 = cx.w.wallets[1].issue_invoice(IssueInvoiceTxArgs { amount, ..Default::default() })?;
				Ok((s1, 0))
			}
			At::FinalizeInvoice => {
				let s1 = cx.w.wallets[1].issue_invoice(IssueInvoiceTxArgs { amount, ..Default::default() })?;
				let s2 = cx.w.wallets[0].process_invoice(&s1, InitTxArgs { minimum_confirmations: 1, ..Default::default() })?;
				cx.w.wallets[0].lock_outputs(&s2)?;
				Ok((s2, 1))
			}
		}
	})();
	let (mut slate, actor) = match r {
		Ok(x) => x,
		Err(e) => {
			cx.rep.inconclusive(&format!("setup failed: {:?}", e));
			return;
		}
	};
	// move the chain a random distance, then fix the cutoff relative to the height the acting wallet observes
	let k = rng.below(3);
	for _ in 0..k {
		let _ = cx.w.mine(None, false);
	}
	let h = match cx.observe() {
		Some(h) => h,
		None => return,
	};
	let cutoff = match special {
		Some(c) => c,
		None => (h as i64 + delta) as u64,
	};
	slate.ttl_cutoff_height = cutoff;
	// Sometimes the chain moves on after that full refresh and the acting wallet sees the new height only through
	// an operation that refreshes its outputs on the way (an estimate of a send): it has then observed that height
	// all the same.
	let mut h = h;
	if special.is_none() && delta > 0 && rng.chance(1, 2) {
		for _ in 0..(delta as u64 + rng.below(2)) {
			let _ = cx.w.mine(None, false);
		}
		let wal = &cx.w.wallets[actor];
		let seen = wal.init_send(InitTxArgs { amount: 1_000_000, minimum_confirmations: 1, estimate_only: Some(true), ..Default::default() }).is_ok();
		if seen {
			h = cx.w.height();
			cx.rep.count("height-observed-only-through-an-output-refresh-inside-another-operation");
		} else {
			// the estimate failed (funds tied up by the case's own pending transactions): whether it had refreshed
			// before failing is not visible from outside, so what the wallet has observed is unknown - not judged
			cx.rep.count("height-observation-unknown(estimate-failed):case-skipped");
			cx.cleanup();
			return;
		}
	}
	let expect_expired = cutoff != 0 && h >= cutoff;
	let own_ttl: Option<u64> = match rng.below(3) {
		0 => None,
		1 => Some(1 + rng.below(3)),
		_ => Some(100),
	};
	if own_ttl.is_some() && at == At::PayInvoice {
		cx.rep.count("pay-invoice-with-own-ttl_blocks");
	}
	let wal = &cx.w.wallets[actor];
	// the acting wallet has observed height h while its default account was active; sometimes another of its
	// accounts is the active one when the step arrives (the wallet has still observed h)
	let switched = at != At::PayInvoice && rng.chance(1, 3) && {
		let _ = wal.create_account("other");
		wal.set_account("other").is_ok()
	};
	if switched {
		cx.rep.count(&format!("step-arrives-while-another-account-is-active:{:?}", at));
	}
	let before = digest(wal);
	cx.rep.eval();
	let res = catch(|| match at {
		At::Receive => wal.receive(&slate, None).map(|_| ()),
		At::Finalize => wal.finalize(&slate).map(|_| ()),
		// (the acting wallet's own time-to-live wish for its reply must not matter for the incoming slate's expiry)
		At::PayInvoice => wal.process_invoice(&slate, InitTxArgs { minimum_confirmations: 1, ttl_blocks: own_ttl, ..Default::default() }).map(|_| ()),
		At::FinalizeInvoice => wal.foreign_finalize(&slate).map(|_| ()),
	});
	let case = json!({"job":"c17","step": format!("{:?}", at), "observed_height": h, "cutoff": cutoff.to_string(), "delta": delta, "h0": h0, "actors_own_ttl_blocks": own_ttl, "another_account_active": switched});
	let at_name = if switched { format!("{:?}(another-account-active)", at) } else { format!("{:?}", at) };
	match res {
		Err((loc, msg)) => cx.rep.violation(&format!("C17|panic|{}", loc), &msg, case),
		Ok(Ok(())) => {
			if expect_expired {
				cx.rep.violation(&format!("C17|expired-slate-accepted|{}", at_name), &format!("{:?} accepted a slate with cutoff {} at observed height {}", at, cutoff, h), case);
			} else {
				cx.rep.count(&format!("accepted-in-time:{:?}", at));
			}
		}
		Ok(Err(e)) => {
			if is_expired_err(&e) {
				if !expect_expired {
					cx.rep.violation(&format!("C17|unexpired-slate-refused-as-expired|{:?}", at), &format!("{:?} refused a slate for expiry with cutoff {} at observed height {}", at, cutoff, h), case);
				} else if digest(wal) != before {
					cx.rep.violation(&format!("C17|expired-refusal-changed-state|{:?}", at), "refusing an expired slate changed wallet state", case);
				} else {
					cx.rep.count(&format!("refused-expired:{:?}", at));
				}
			} else if expect_expired {
				// refused, but for another reason: acceptable (still refused, no acceptance of an expired slate)
				if digest(wal) != before {
					cx.rep.violation(&format!("C17|expired-refusal-changed-state|{:?}", at), &format!("refusing an expired slate ({:?}) changed wallet state", e), case);
				}
				cx.rep.count(&format!("refused-expired-other-error:{:?}:{}", at, err_kind(&e)));
			} else {
				// a non-expiry refusal of an unexpired slate is outside this property
				cx.rep.count(&format!("refused-other:{:?}:{}", at, err_kind(&e)));
			}
		}
	}
	if switched {
		// an accepted receipt lives in the other account: release it there
		let _ = cx.w.wallets[actor].cancel(None, Some(slate.id));
		let _ = cx.w.wallets[actor].set_account("default");
	}
	if cx.rep.samples.len() < 4 {
		cx.rep.sample(json!({"step": format!("{:?}", at), "observed_height": h, "cutoff": cutoff.to_string(), "expected": if expect_expired { "refused as expired" } else { "not refused for expiry" }}));
	}
	cx.rep.distinct(&(format!("{:?}", at), delta, special.map(|s| if s == 0 { 0 } else if s == 1 { 1 } else { 2 }), expect_expired));
	cx.cleanup();
}

/// a refresh at a height at or beyond the cutoff cancels the wallet's own unconfirmed transaction
/// and releases its outputs; transactions without cutoff or with a later one are untouched
fn refresh_case(cx: &mut Ctx, rng: &mut Rng, role: u8, n_other: usize, others_first: bool, delta: i64) {
	// role 0: the sender's wallet looks; 1: the recipient's; 2: a self-send inside one account (its two entries share the slate id)
	let role_sender = role != 1;
	let self_send = role == 2;
	cx.fund();
	cx.cleanup();
	if cx.observe().is_none() {
		return;
	}
	let wi = if role_sender { 0 } else { 1 };
	let mut other_ids = vec![];
	let mut make_others = |cx: &mut Ctx, rng: &mut Rng, ids: &mut Vec<(uuid::Uuid, Option<u64>)>| {
		for j in 0..n_other {
			// pending transactions of the same wallet without ttl or with a later ttl
			let ttl = if j % 2 == 0 { None } else { Some(500u64) };
			let r = (|| -> Result<uuid::Uuid, libwallet::Error> {
				if role_sender {
					let s = cx.w.wallets[0].init_send(InitTxArgs { amount: 500_000_000 + rng.below(1_000_000_000), minimum_confirmations: 1, ttl_blocks: ttl, selection_strategy_is_use_all: false, ..Default::default() })?;
					cx.w.wallets[0].lock_outputs(&s)?;
					Ok(s.id)
				} else {
					let s = cx.w.wallets[0].init_send(InitTxArgs { amount: 500_000_000 + rng.below(1_000_000_000), minimum_confirmations: 1, ttl_blocks: ttl, selection_strategy_is_use_all: false, ..Default::default() })?;
					cx.w.wallets[0].lock_outputs(&s)?;
					cx.w.wallets[1].receive(&s, None)?;
					Ok(s.id)
				}
			})();
			if let Ok(id) = r {
				ids.push((id, ttl));
			}
		}
	};
	if others_first {
		make_others(cx, rng, &mut other_ids);
	}
	let b = 2 + rng.below(3);
	// sometimes the sender also has an older send with a time-to-live that has no change output and is already
	// mined, but not yet seen: the refresh confirms it by its kernel, and must then still release the expired one
	if role == 0 && rng.chance(1, 3) {
		let r = (|| -> Result<(), libwallet::Error> {
			let wal = &cx.w.wallets[0];
			let height = cx.w.height();
			let coin = wal.all_outputs()?.into_iter().filter(|o| o.eligible_to_spend(height, 1) && o.root_key_id == wal.active_account().unwrap()).map(|o| o.value).min().unwrap_or(0);
			let s = wal.init_send(InitTxArgs { amount: coin, amount_includes_fee: Some(true), minimum_confirmations: 1, max_outputs: 1, num_change_outputs: 1, ttl_blocks: Some(b + 1), selection_strategy_is_use_all: false, ..Default::default() })?;
			wal.lock_outputs(&s)?;
			let s2 = cx.w.wallets[1].receive(&s, None)?;
			let s3 = wal.finalize(&s2)?;
			wal.post(s3.tx_or_err()?)?;
			Ok(())
		})();
		if r.is_ok() && cx.w.mine(None, true).is_ok() {
			cx.rep.count("refresh-case:older-ttl-send-confirmed-only-by-its-kernel");
		}
	}
	let r = (|| -> Result<(uuid::Uuid, u64), libwallet::Error> {
		let s = cx.w.wallets[0].init_send(InitTxArgs { amount: 2_000_000_000 + rng.below(1_000_000_000), minimum_confirmations: 1, ttl_blocks: Some(b), selection_strategy_is_use_all: false, num_change_outputs: 1 + rng.below(2) as u32, ..Default::default() })?;
		cx.w.wallets[0].lock_outputs(&s)?;
		if !role_sender {
			cx.w.wallets[1].receive(&s, None)?;
		}
		if self_send {
			cx.w.wallets[0].receive(&s, None)?;
		}
		Ok((s.id, s.ttl_cutoff_height))
	})();
	let (id, cutoff) = match r {
		Ok(x) => x,
		Err(e) => {
			cx.rep.inconclusive(&format!("refresh-case setup failed: {:?}", e));
			cx.cleanup();
			return;
		}
	};
	if !others_first {
		make_others(cx, rng, &mut other_ids);
	}
	// mine to cutoff + delta
	let target = (cutoff as i64 + delta) as u64;
	while cx.w.height() < target {
		if cx.w.mine(None, false).is_err() {
			break;
		}
	}
	let tip = cx.w.height();
	cx.rep.eval();
	let wal = &cx.w.wallets[wi];
	let r = catch(|| wal.refresh());
	let case = json!({"job":"c17","kind":"refresh","role": if self_send {"self-send in one account"} else if role_sender {"sender"} else {"recipient"}, "cutoff": cutoff, "tip": tip, "other_pending": other_ids.len(), "others_created_first": others_first});
	match r {
		Err((loc, msg)) => cx.rep.violation(&format!("C17|panic|{}", loc), &msg, case),
		Ok(Err(e)) => {
			// nothing in these cases gives a refresh a reason to fail (the node is reachable, the transaction was never
			// broadcast): a failing refresh that leaves the expired transaction live has not released it
			cx.rep.count(&format!("refresh-error:{}", err_kind(&e)));
			let txs = wal.all_txs().unwrap_or_default();
			let live = txs.iter().any(|t| t.tx_slate_id == Some(id) && !t.confirmed && (t.tx_type == TxLogEntryType::TxSent || t.tx_type == TxLogEntryType::TxReceived));
			if tip >= cutoff && live {
				cx.rep.violation(&format!("C17|expired-transaction-not-released|refresh-fails:{}", err_kind(&e)), &format!("the refresh at tip {} >= cutoff {} failed with {:?} and the wallet's own unconfirmed transaction is still live", tip, cutoff, e), case);
			}
		}
		Ok(Ok(false)) => cx.rep.count("refresh-not-validated"),
		Ok(Ok(true)) => {
			let txs = wal.all_txs().unwrap_or_default();
			let outs = wal.all_outputs().unwrap_or_default();
			let es: Vec<&libwallet::TxLogEntry> = txs.iter().filter(|t| t.tx_slate_id == Some(id)).collect();
			let expired = tip >= cutoff;
			if es.is_empty() {
				cx.rep.inconclusive("entry vanished");
			}
			for e in es {
				{
					let cancelled = e.tx_type == TxLogEntryType::TxSentCancelled || e.tx_type == TxLogEntryType::TxReceivedCancelled;
					let still_reserved = outs.iter().any(|o| o.tx_log_entry == Some(e.id) && o.root_key_id == e.parent_key_id && (o.status == OutputStatus::Locked || o.status == OutputStatus::Unconfirmed));
					if expired && (!cancelled || still_reserved) {
						cx.rep.violation(
							&format!("C17|expired-transaction-not-released|{}", if self_send { "self-send" } else if role_sender { "sender" } else { "recipient" }),
							&format!("refresh at tip {} >= cutoff {} left the wallet's own unconfirmed transaction {} (cancelled: {}, outputs still reserved/pending: {}) with {} other pending transactions", tip, cutoff, type_str(&e.tx_type), cancelled, still_reserved, other_ids.len()),
							case.clone(),
						);
					} else if !expired && cancelled {
						cx.rep.violation("C17|unexpired-transaction-cancelled", &format!("refresh at tip {} < cutoff {} cancelled the transaction", tip, cutoff), case.clone());
					} else {
						cx.rep.count(if expired { "refresh-released-expired" } else { "refresh-kept-unexpired" });
					}
				}
			}
			// others (no ttl / later ttl) must be untouched
			for (oid, ttl) in other_ids.iter() {
				if let Some(t) = txs.iter().find(|t| t.tx_slate_id == Some(*oid)) {
					let cancelled = t.tx_type == TxLogEntryType::TxSentCancelled || t.tx_type == TxLogEntryType::TxReceivedCancelled;
					if cancelled {
						cx.rep.violation("C17|transaction-without-expired-cutoff-cancelled", &format!("a pending transaction with ttl {:?} (cutoff {:?}) was cancelled by a refresh at tip {}", ttl, t.ttl_cutoff_height, tip), case.clone());
					} else {
						cx.rep.count("refresh-kept-other-pending");
					}
				}
			}
		}
	}
	if cx.rep.samples.len() < 6 {
		cx.rep.sample(json!({"kind": "refresh", "role": if role_sender { "sender" } else { "recipient" }, "cutoff": cutoff, "tip": tip, "other_pending": other_ids.len(), "others_created_first": others_first}));
	}
	cx.rep.distinct(&("refresh", role, n_other, others_first, delta));
	if self_send {
		cx.rep.count("refresh-case:self-send-in-one-account");
	}
	cx.cleanup();
}

/// A time-to-live given in blocks at initiation (or for the reply of an invoice payment) lies ahead whatever its
/// size: the cutoff the wallet writes into the slate is beyond the height it has observed, or the call is an error.
fn huge_ttl_case(cx: &mut Ctx, rng: &mut Rng, pay_invoice: bool) {
	cx.fund();
	cx.cleanup();
	let h = match cx.observe() {
		Some(h) => h,
		None => return,
	};
	let ttl = u64::MAX - rng.below(3);
	let case = json!({"job":"c17","scenario": if pay_invoice { "process_invoice_tx with a huge ttl_blocks" } else { "init_send_tx with a huge ttl_blocks" }, "ttl_blocks": ttl.to_string(), "observed_height": h});
	cx.rep.eval();
	let w = &*cx.w;
	let res = catch(|| -> Result<Slate, libwallet::Error> {
		if pay_invoice {
			let inv = w.wallets[1].issue_invoice(IssueInvoiceTxArgs { amount: 1_000_000_000, ..Default::default() })?;
			w.wallets[0].process_invoice(&inv, InitTxArgs { minimum_confirmations: 1, ttl_blocks: Some(ttl), ..Default::default() })
		} else {
			w.wallets[0].init_send(InitTxArgs { amount: 1_000_000_000, minimum_confirmations: 1, ttl_blocks: Some(ttl), ..Default::default() })
		}
	});
	match res {
		Err((loc, msg)) => cx.rep.violation(&format!("C17|panic|{}|huge-ttl_blocks", loc), &msg, case),
		Ok(Err(e)) => cx.rep.count(&format!("huge-ttl_blocks:refused:{}", err_kind(&e))),
		Ok(Ok(s)) => {
			if s.ttl_cutoff_height != 0 && s.ttl_cutoff_height <= h {
				cx.rep.violation("C17|cutoff-in-the-past-for-a-time-to-live-that-lies-ahead", &format!("ttl_blocks {} at height {} gave the slate cutoff {}: it is expired from the start", ttl, h, s.ttl_cutoff_height), case);
			} else {
				cx.rep.count("huge-ttl_blocks:cutoff-ahead");
			}
		}
	}
	cx.cleanup();
}

pub fn run(a: &Args) {
	let mut rep = Report::new("C17");
	let mut rng = Rng::new(a.shard_seed() ^ 0xC17);
	let mut world = World::two(&format!("{}/world", a.work));
	let _ = world.mine_n(Some(0), 6);
	let _ = world.mine_n(Some(1), 6);
	let _ = world.mine_n(None, 3);
	let mut cx = Ctx { w: &mut world, rep: &mut rep };
	let rounds = a.get_u64("rounds", if a.thorough() { 6 } else { 3 });
	let steps = [At::Receive, At::Finalize, At::PayInvoice, At::FinalizeInvoice];
	let mut idx = 0usize;
	for _ in 0..rounds {
		for at in steps.iter() {
			for delta in -3i64..=3 {
				idx += 1;
				if idx % a.nshards == a.shard {
					step_case(&mut cx, &mut rng, *at, delta, None);
				}
			}
			for sp in [0u64, 1, u64::MAX].iter() {
				idx += 1;
				if idx % a.nshards == a.shard {
					step_case(&mut cx, &mut rng, *at, 0, Some(*sp));
				}
			}
		}
		for role_sender in [0u8, 1, 2].iter() {
			for n_other in 0..4usize {
				for others_first in [true, false].iter() {
					for delta in [-1i64, 0, 1].iter() {
						idx += 1;
						if idx % a.nshards == a.shard {
							refresh_case(&mut cx, &mut rng, *role_sender, n_other, *others_first, *delta);
						}
					}
				}
			}
		}
	}
	huge_ttl_case(&mut cx, &mut rng, a.shard % 2 == 1);
	rep.write(&a.out);
}
