//! Harness utilities: PRNG, argument parsing, shard reports, panic bookkeeping.

use serde_json::{json, Map, Value};
use std::cell::RefCell;
use std::collections::{BTreeMap, BTreeSet};
use std::hash::{Hash, Hasher};
use std::panic;
use std::time::Instant;

// ---------------------------------------------------------------- PRNG

/// xoshiro256** seeded through splitmix64
#[derive(Clone, Debug)]
pub struct Rng {
	s: [u64; 4],
}

fn splitmix(x: &mut u64) -> u64 {
	*x = x.wrapping_add(0x9E3779B97F4A7C15);
	let mut z = *x;
	z = (z ^ (z >> 30)).wrapping_mul(0xBF58476D1CE4E5B9);
	z = (z ^ (z >> 27)).wrapping_mul(0x94D049BB133111EB);
	z ^ (z >> 31)
}

impl Rng {
	pub fn new(seed: u64) -> Rng {
		let mut x = seed ^ 0x5851F42D4C957F2D;
		let s = [
			splitmix(&mut x),
			splitmix(&mut x),
			splitmix(&mut x),
			splitmix(&mut x),
		];
		Rng { s }
	}
	pub fn next(&mut self) -> u64 {
		let r = self.s[1].wrapping_mul(5).rotate_left(7).wrapping_mul(9);
		let t = self.s[1] << 17;
		self.s[2] ^= self.s[0];
		self.s[3] ^= self.s[1];
		self.s[1] ^= self.s[2];
		self.s[0] ^= self.s[3];
		self.s[2] ^= t;
		self.s[3] = self.s[3].rotate_left(45);
		r
	}
	/// uniform in 0..n (n > 0)
	pub fn below(&mut self, n: u64) -> u64 {
		if n == 0 {
			return 0;
		}
		self.next() % n
	}
	pub fn range(&mut self, lo: u64, hi_incl: u64) -> u64 {
		lo + self.below(hi_incl - lo + 1)
	}
	pub fn usize(&mut self, n: usize) -> usize {
		self.below(n as u64) as usize
	}
	pub fn bool(&mut self) -> bool {
		self.next() & 1 == 1
	}
	/// true with probability num/den
	pub fn chance(&mut self, num: u64, den: u64) -> bool {
		self.below(den) < num
	}
	pub fn pick<'a, T>(&mut self, v: &'a [T]) -> &'a T {
		&v[self.usize(v.len())]
	}
	pub fn bytes(&mut self, n: usize) -> Vec<u8> {
		let mut v = Vec::with_capacity(n);
		while v.len() < n {
			let x = self.next().to_le_bytes();
			for b in x.iter() {
				if v.len() < n {
					v.push(*b);
				}
			}
		}
		v
	}
	pub fn shuffle<T>(&mut self, v: &mut Vec<T>) {
		for i in (1..v.len()).rev() {
			let j = self.usize(i + 1);
			v.swap(i, j);
		}
	}
}

pub fn hash64<T: Hash>(t: &T) -> u64 {
	// FNV-1a via std Hasher impl
	struct Fnv(u64);
	impl Hasher for Fnv {
		fn finish(&self) -> u64 {
			self.0
		}
		fn write(&mut self, bytes: &[u8]) {
			for b in bytes {
				self.0 ^= *b as u64;
				self.0 = self.0.wrapping_mul(0x100000001b3);
			}
		}
	}
	let mut h = Fnv(0xcbf29ce484222325);
	t.hash(&mut h);
	h.finish()
}

pub fn hex(b: &[u8]) -> String {
	let mut s = String::with_capacity(b.len() * 2);
	for x in b {
		s.push_str(&format!("{:02x}", x));
	}
	s
}

pub fn unhex(s: &str) -> Option<Vec<u8>> {
	if s.len() % 2 != 0 || !s.is_ascii() {
		return None;
	}
	let b = s.as_bytes();
	let mut v = vec![];
	for i in (0..b.len()).step_by(2) {
		let x = u8::from_str_radix(std::str::from_utf8(&b[i..i + 2]).ok()?, 16).ok()?;
		v.push(x);
	}
	Some(v)
}

// ---------------------------------------------------------------- args

#[derive(Clone, Debug)]
pub struct Args {
	pub prop: String,
	pub tier: String,
	pub seed: u64,
	pub shard: usize,
	pub nshards: usize,
	pub out: String,
	pub work: String,
	pub replay: Option<String>,
	pub extra: BTreeMap<String, String>,
}

impl Args {
	pub fn parse() -> Args {
		let av: Vec<String> = std::env::args().collect();
		if av.len() < 2 {
			eprintln!("usage: gwv <prop> [--tier quick|thorough] [--seed N] [--shard i/n] [--out f] [--work dir] [--replay f] [--k v]*");
			std::process::exit(2);
		}
		let mut a = Args {
			prop: av[1].clone(),
			tier: "quick".into(),
			seed: 1,
			shard: 0,
			nshards: 1,
			out: "".into(),
			work: "".into(),
			replay: None,
			extra: BTreeMap::new(),
		};
		let mut i = 2;
		while i < av.len() {
			let k = av[i].trim_start_matches("--").to_string();
			let v = av.get(i + 1).cloned().unwrap_or_default();
			match k.as_str() {
				"tier" => a.tier = v,
				"seed" => a.seed = v.parse().unwrap_or(1),
				"shard" => {
					let p: Vec<&str> = v.split('/').collect();
					a.shard = p[0].parse().unwrap();
					a.nshards = p[1].parse().unwrap();
				}
				"out" => a.out = v,
				"work" => a.work = v,
				"replay" => a.replay = Some(v),
				_ => {
					a.extra.insert(k, v);
				}
			}
			i += 2;
		}
		a
	}
	pub fn thorough(&self) -> bool {
		self.tier == "thorough"
	}
	pub fn shard_seed(&self) -> u64 {
		self.seed
			.wrapping_mul(1000003)
			.wrapping_add(self.shard as u64)
	}
	pub fn get(&self, k: &str) -> Option<&String> {
		self.extra.get(k)
	}
	pub fn get_u64(&self, k: &str, d: u64) -> u64 {
		self.extra.get(k).and_then(|v| v.parse().ok()).unwrap_or(d)
	}
}

// ---------------------------------------------------------------- report

/// One refuting observation
#[derive(Clone, Debug)]
pub struct Violation {
	/// specific signature used to match known findings
	pub signature: String,
	/// human readable
	pub what: String,
	/// literal case for replay
	pub case: Value,
}

/// Per-shard report, merged by bin/check
pub struct Report {
	pub prop: String,
	pub start: Instant,
	pub evaluations: u64,
	pub distinct: BTreeSet<u64>,
	pub hist: BTreeMap<String, u64>,
	pub samples: Vec<Value>,
	pub max_samples: usize,
	pub violations: Vec<Violation>,
	pub inconclusive: u64,
	pub inconclusive_notes: Vec<String>,
	pub notes: Vec<String>,
	pub exhaustive: Option<bool>,
	pub extra: Map<String, Value>,
}

impl Report {
	pub fn new(prop: &str) -> Report {
		Report {
			prop: prop.to_string(),
			start: Instant::now(),
			evaluations: 0,
			distinct: BTreeSet::new(),
			hist: BTreeMap::new(),
			samples: vec![],
			max_samples: 6,
			violations: vec![],
			inconclusive: 0,
			inconclusive_notes: vec![],
			notes: vec![],
			exhaustive: None,
			extra: Map::new(),
		}
	}
	pub fn eval(&mut self) {
		self.evaluations += 1;
	}
	pub fn count(&mut self, k: &str) {
		*self.hist.entry(k.to_string()).or_insert(0) += 1;
	}
	pub fn count_n(&mut self, k: &str, n: u64) {
		*self.hist.entry(k.to_string()).or_insert(0) += n;
	}
	pub fn max(&mut self, k: &str, n: u64) {
		let e = self.hist.entry(k.to_string()).or_insert(0);
		if n > *e {
			*e = n;
		}
	}
	/// record a distinct non-trivial behaviour class
	pub fn distinct<T: Hash>(&mut self, t: &T) {
		if self.distinct.len() < 400_000 {
			self.distinct.insert(hash64(t));
		}
	}
	pub fn sample(&mut self, v: Value) {
		if self.samples.len() < self.max_samples {
			self.samples.push(v);
		}
	}
	pub fn violation(&mut self, signature: &str, what: &str, case: Value) {
		if std::env::var("GWV_DEBUG").is_ok() {
			eprintln!("VIOL {} | {} | {}", signature, trunc(what, 600), trunc(&case.to_string(), 1500));
		}
		// keep at most 40 literal violations, but count all by signature
		self.count(&format!("violation:{}", signature));
		if self.violations.len() < 300
			&& self
				.violations
				.iter()
				.filter(|v| v.signature == signature)
				.count() < 2
		{
			self.violations.push(Violation {
				signature: signature.to_string(),
				what: what.to_string(),
				case,
			});
		}
	}
	pub fn inconclusive(&mut self, why: &str) {
		self.inconclusive += 1;
		if self.inconclusive_notes.len() < 10 {
			self.inconclusive_notes.push(why.to_string());
		}
	}
	pub fn note(&mut self, s: &str) {
		if self.notes.len() < 30 && !self.notes.iter().any(|n| n == s) {
			self.notes.push(s.to_string());
		}
	}
	pub fn to_json(&self) -> Value {
		json!({
			"prop": self.prop,
			"evaluations": self.evaluations,
			"distinct": self.distinct.iter().map(|h| format!("{:016x}", h)).collect::<Vec<_>>(),
			"hist": self.hist,
			"samples": self.samples,
			"violations": self.violations.iter().map(|v| json!({
				"signature": v.signature, "what": v.what, "case": v.case
			})).collect::<Vec<_>>(),
			"inconclusive": self.inconclusive,
			"inconclusive_notes": self.inconclusive_notes,
			"notes": self.notes,
			"exhaustive": self.exhaustive,
			"extra": self.extra,
			"wall_s": self.start.elapsed().as_secs_f64(),
		})
	}
	pub fn write(&self, path: &str) {
		let s = serde_json::to_string(&self.to_json()).unwrap();
		if path.is_empty() {
			println!("{}", s);
		} else {
			std::fs::write(path, s).expect("write report");
		}
	}
}

// ---------------------------------------------------------------- panic bookkeeping

thread_local! {
	static LAST_PANIC: RefCell<Option<(String, String)>> = RefCell::new(None);
	static QUIET: RefCell<bool> = RefCell::new(true);
	static IN_CATCH: RefCell<u32> = RefCell::new(0);
}

/// Install a hook that records `file:line` and message of the panic per thread.
pub fn install_panic_hook() {
	panic::set_hook(Box::new(|info| {
		let loc = info
			.location()
			.map(|l| format!("{}:{}", l.file(), l.line()))
			.unwrap_or_else(|| "?".to_string());
		let msg = if let Some(s) = info.payload().downcast_ref::<&str>() {
			s.to_string()
		} else if let Some(s) = info.payload().downcast_ref::<String>() {
			s.clone()
		} else {
			"<non-string payload>".to_string()
		};
		let quiet = QUIET.with(|q| *q.borrow()) && IN_CATCH.with(|c| *c.borrow()) > 0;
		if !quiet {
			eprintln!("panic at {}: {}", loc, msg);
		}
		LAST_PANIC.with(|p| *p.borrow_mut() = Some((loc, msg)));
	}));
}

pub fn set_quiet(q: bool) {
	QUIET.with(|x| *x.borrow_mut() = q);
}

/// Normalise a panic location: strip cargo registry prefixes and /repo/
pub fn norm_loc(loc: &str) -> String {
	let mut l = loc.to_string();
	if let Some(i) = l.find("/registry/src/") {
		let rest = &l[i + "/registry/src/".len()..];
		if let Some(j) = rest.find('/') {
			l = format!("dep:{}", &rest[j + 1..]);
		}
	}
	if l.starts_with("/repo/") {
		l = l["/repo/".len()..].to_string();
	}
	if l.starts_with("/rustc/") {
		if let Some(i) = l.find("/library/") {
			l = format!("std:{}", &l[i + 9..]);
		}
	}
	l
}

/// Run `f`, catching unwinding. Err((location, message)) on panic.
pub fn catch<T, F: FnOnce() -> T>(f: F) -> Result<T, (String, String)> {
	LAST_PANIC.with(|p| *p.borrow_mut() = None);
	IN_CATCH.with(|c| *c.borrow_mut() += 1);
	let r = panic::catch_unwind(panic::AssertUnwindSafe(f));
	IN_CATCH.with(|c| *c.borrow_mut() -= 1);
	match r {
		Ok(v) => Ok(v),
		Err(_) => {
			let lp = LAST_PANIC.with(|p| p.borrow_mut().take());
			let (loc, msg) = lp.unwrap_or(("?".into(), "?".into()));
			Err((norm_loc(&loc), msg))
		}
	}
}

pub fn trunc(s: &str, n: usize) -> String {
	if s.len() <= n {
		s.to_string()
	} else {
		let mut e = n;
		while !s.is_char_boundary(e) {
			e -= 1;
		}
		format!("{}…(+{}B)", &s[..e], s.len() - e)
	}
}

// ---------------------------------------------------------------- counting allocator

use std::alloc::{GlobalAlloc, Layout, System};
use std::sync::atomic::{AtomicBool, AtomicI64, AtomicU64, Ordering as AO};

pub struct CountingAlloc;

static CUR: AtomicI64 = AtomicI64::new(0);
static PEAK: AtomicI64 = AtomicI64::new(0);
static BIGGEST: AtomicU64 = AtomicU64::new(0);
static TRACK: AtomicBool = AtomicBool::new(false);
/// single allocations above this are refused (null) while tracking: the process then aborts with
/// "memory allocation failed", which the orchestrator reports with the journalled input
pub const ALLOC_HARD_CAP: usize = 2 << 30;

unsafe impl GlobalAlloc for CountingAlloc {
	unsafe fn alloc(&self, l: Layout) -> *mut u8 {
		if TRACK.load(AO::Relaxed) {
			if l.size() > ALLOC_HARD_CAP {
				return std::ptr::null_mut();
			}
			let c = CUR.fetch_add(l.size() as i64, AO::Relaxed) + l.size() as i64;
			PEAK.fetch_max(c, AO::Relaxed);
			BIGGEST.fetch_max(l.size() as u64, AO::Relaxed);
		}
		System.alloc(l)
	}
	unsafe fn dealloc(&self, p: *mut u8, l: Layout) {
		if TRACK.load(AO::Relaxed) {
			CUR.fetch_sub(l.size() as i64, AO::Relaxed);
		}
		System.dealloc(p, l)
	}
	unsafe fn realloc(&self, p: *mut u8, l: Layout, new_size: usize) -> *mut u8 {
		if TRACK.load(AO::Relaxed) {
			if new_size > ALLOC_HARD_CAP {
				return std::ptr::null_mut();
			}
			let d = new_size as i64 - l.size() as i64;
			let c = CUR.fetch_add(d, AO::Relaxed) + d;
			PEAK.fetch_max(c, AO::Relaxed);
			BIGGEST.fetch_max(new_size as u64, AO::Relaxed);
		}
		System.realloc(p, l, new_size)
	}
}

/// start measuring: returns nothing; `alloc_stop` returns the peak growth in bytes
pub fn alloc_start() {
	CUR.store(0, AO::Relaxed);
	PEAK.store(0, AO::Relaxed);
	BIGGEST.store(0, AO::Relaxed);
	TRACK.store(true, AO::Relaxed);
}
pub fn alloc_stop() -> (u64, u64) {
	TRACK.store(false, AO::Relaxed);
	(
		std::cmp::max(PEAK.load(AO::Relaxed), 0) as u64,
		BIGGEST.load(AO::Relaxed),
	)
}

pub fn thread_cpu_secs() -> f64 {
	let mut ts = libc::timespec {
		tv_sec: 0,
		tv_nsec: 0,
	};
	unsafe {
		libc::clock_gettime(libc::CLOCK_THREAD_CPUTIME_ID, &mut ts);
	}
	ts.tv_sec as f64 + ts.tv_nsec as f64 * 1e-9
}
