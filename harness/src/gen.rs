//! Structural generators shared by C08 / C09 / C10: well-typed slates over every optional field.

use crate::util::Rng;
use ed25519_dalek::Keypair as DalekKeypair;
use ed25519_dalek::PublicKey as DalekPublicKey;
use ed25519_dalek::SecretKey as DalekSecretKey;
use ed25519_dalek::Signer;
use grin_core::core::FeeFields;
use grin_keychain::BlindingFactor;
use grin_util::secp::key::{PublicKey, SecretKey};
use grin_util::secp::pedersen::{Commitment, RangeProof};
use grin_util::secp::{ContextFlag, Message, Secp256k1, Signature};
use grin_wallet_libwallet::slate_versions::v4::{
	CommitsV4, KernelFeaturesArgsV4, OutputFeaturesV4, ParticipantDataV4, PaymentInfoV4,
	SlateStateV4, SlateV4, VersionCompatInfoV4,
};
use grin_wallet_libwallet::{Slate, SlatepackAddress};
use uuid::Uuid;

pub const BOUNDARY_U64: [u64; 7] = [0, 1, 2, 1 << 32, 1 << 40, u64::MAX - 1, u64::MAX];

pub struct SlateGen {
	pub secp: Secp256k1,
	/// pool of real keys/signatures/commitments/proofs (expensive to make)
	pub pubkeys: Vec<PublicKey>,
	pub sigs: Vec<Signature>,
	pub commits: Vec<Commitment>,
	pub real_proof: RangeProof,
	pub ed_keys: Vec<(DalekSecretKeyBytes, DalekPublicKey)>,
}

pub type DalekSecretKeyBytes = [u8; 32];

pub fn ed_keypair(bytes: &[u8]) -> DalekKeypair {
	let mut b = [0u8; 32];
	b.copy_from_slice(&bytes[0..32]);
	let secret = DalekSecretKey::from_bytes(&b).unwrap();
	let public: DalekPublicKey = (&secret).into();
	DalekKeypair { secret, public }
}

#[derive(Default, Clone, Debug)]
pub struct FieldStats {
	pub set: std::collections::BTreeMap<String, u64>,
}

impl FieldStats {
	pub fn hit(&mut self, k: &str) {
		*self.set.entry(k.to_string()).or_insert(0) += 1;
	}
}

impl SlateGen {
	pub fn new(rng: &mut Rng) -> SlateGen {
		let secp = Secp256k1::with_caps(ContextFlag::Commit);
		let mut pubkeys = vec![];
		let mut sigs = vec![];
		let mut commits = vec![];
		for i in 0..24 {
			let sk = loop {
				if let Ok(k) = SecretKey::from_slice(&secp, &rng.bytes(32)) {
					break k;
				}
			};
			pubkeys.push(PublicKey::from_secret_key(&secp, &sk).unwrap());
			let msg = Message::from_slice(&rng.bytes(32)).unwrap();
			sigs.push(secp.sign(&msg, &sk).unwrap());
			commits.push(secp.commit(1000 + i as u64, sk.clone()).unwrap());
		}
		// one real bulletproof
		let sk = SecretKey::from_slice(&secp, &[9u8; 32]).unwrap();
		let real_proof = secp.bullet_proof(12345, sk.clone(), sk.clone(), sk.clone(), None, None);
		let mut ed_keys = vec![];
		for _ in 0..8 {
			let b = rng.bytes(32);
			let kp = ed_keypair(&b);
			let mut s = [0u8; 32];
			s.copy_from_slice(&b);
			ed_keys.push((s, kp.public));
		}
		SlateGen {
			secp,
			pubkeys,
			sigs,
			commits,
			real_proof,
			ed_keys,
		}
	}

	pub fn proof_of_len(&self, rng: &mut Rng, len: usize) -> RangeProof {
		if len == self.real_proof.plen {
			return self.real_proof;
		}
		let mut p = RangeProof::zero();
		let b = rng.bytes(len);
		p.proof[..len].copy_from_slice(&b);
		p.plen = len;
		p
	}

	pub fn boundary(rng: &mut Rng) -> u64 {
		if rng.chance(2, 3) {
			*rng.pick(&BOUNDARY_U64)
		} else {
			rng.next() >> rng.below(64)
		}
	}

	/// A well-typed V4 slate. `max_coms` bounds the number of commitments.
	pub fn slate_v4(&self, rng: &mut Rng, st: &mut FieldStats, max_coms: usize) -> SlateV4 {
		let sta = match rng.below(7) {
			0 => SlateStateV4::Unknown,
			1 => SlateStateV4::Standard1,
			2 => SlateStateV4::Standard2,
			3 => SlateStateV4::Standard3,
			4 => SlateStateV4::Invoice1,
			5 => SlateStateV4::Invoice2,
			_ => SlateStateV4::Invoice3,
		};
		st.hit(&format!("sta={:?}", sta));
		let num_parts = *rng.pick(&[2u8, 2, 0, 1, 3, 255]);
		st.hit(&format!("num_parts={}", num_parts));
		let amt = SlateGen::boundary(rng);
		st.hit(if amt == 0 { "amt=0" } else { "amt!=0" });
		let fee = if rng.chance(1, 4) {
			st.hit("fee=zero");
			FeeFields::zero()
		} else if rng.chance(1, 12) {
			// a fee field whose low 40 bits are zero cannot be built through the constructors, but it can be
			// read from JSON (the field is a plain integer there), so a wallet can hold such a slate
			let shift = 1 + rng.below(15);
			match serde_json::from_value::<FeeFields>(serde_json::json!(shift << 40)) {
				Ok(f) => {
					st.hit("fee:multiple-of-2^40");
					f
				}
				Err(_) => FeeFields::zero(),
			}
		} else {
			let shift = *rng.pick(&[0u64, 0, 0, 1, 7, 15]);
			let rf = 1 + rng.below(1 << 39);
			let f = *rng.pick(&[1u64, 23_000_000, (1 << 40) - 1, rf]);
			st.hit(if shift == 0 { "fee:shift=0" } else { "fee:shift>0" });
			FeeFields::new(shift, f).unwrap()
		};
		let feat = *rng.pick(&[0u8, 0, 0, 2, 3]);
		st.hit(&format!("feat={}", feat));
		let feat_args = match feat {
			2 => Some(KernelFeaturesArgsV4 {
				lock_hgt: SlateGen::boundary(rng),
			}),
			3 => Some(KernelFeaturesArgsV4 {
				lock_hgt: *rng.pick(&[1u64, 2, 1440, 10080]),
			}),
			_ => None,
		};
		let ttl = SlateGen::boundary(rng);
		st.hit(if ttl == 0 { "ttl=0" } else { "ttl!=0" });
		let off = if rng.chance(1, 3) {
			st.hit("off=zero");
			BlindingFactor::zero()
		} else {
			st.hit("off!=zero");
			BlindingFactor::from_slice(&rng.bytes(32))
		};
		let nsigs = rng.usize(6);
		st.hit(&format!("sigs={}", nsigs));
		let mut sigs = vec![];
		for _ in 0..nsigs {
			let part = if rng.bool() {
				st.hit("part=some");
				Some(*rng.pick(&self.sigs))
			} else {
				st.hit("part=none");
				None
			};
			sigs.push(ParticipantDataV4 {
				xs: *rng.pick(&self.pubkeys),
				nonce: *rng.pick(&self.pubkeys),
				part,
			});
		}
		let coms = match rng.below(5) {
			0 => {
				st.hit("coms=none");
				None
			}
			1 => {
				st.hit("coms=empty");
				Some(vec![])
			}
			_ => {
				let n = 1 + rng.usize(std::cmp::max(max_coms, 1));
				let mut v = vec![];
				let mut budget = 90_000usize;
				for _ in 0..n {
					let f = OutputFeaturesV4(if rng.chance(1, 5) { 1 } else { 0 });
					let c = if rng.chance(4, 5) {
						*rng.pick(&self.commits)
					} else {
						let mut b = rng.bytes(33);
						b[0] = 8 + (b[0] & 1);
						Commitment::from_vec(b)
					};
					let p = if rng.bool() {
						st.hit("com=input");
						None
					} else {
						// grin range proofs are single 64-bit bulletproofs of exactly MAX_PROOF_SIZE bytes; other
						// lengths are not proofs the wallet can hold (the binary reader pads to that size), so
						// only the content varies: the real proof or arbitrary bytes of the same length
						let len = self.real_proof.plen;
						let arbitrary = rng.bool();
						if len + 50 > budget {
							None
						} else {
							budget -= len + 50;
							st.hit(if !arbitrary { "com=output:real-proof" } else { "com=output:arbitrary-proof" });
							Some(if arbitrary { self.proof_of_len(rng, len - 1).pad(len) } else { self.real_proof })
						}
					};
					if f.0 == 1 {
						st.hit("com:coinbase-feature");
					}
					v.push(CommitsV4 { f, c, p });
				}
				st.hit("coms=some");
				Some(v)
			}
		};
		let proof = match rng.below(3) {
			0 => {
				st.hit("proof=none");
				None
			}
			k => {
				let (_, saddr) = rng.pick(&self.ed_keys).clone();
				let (rsk, raddr) = rng.pick(&self.ed_keys).clone();
				let rsig = if k == 1 {
					st.hit("proof=without-rsig");
					None
				} else {
					st.hit("proof=with-rsig");
					Some(ed_keypair(&rsk).sign(&rng.bytes(40)))
				};
				Some(PaymentInfoV4 { saddr, raddr, rsig })
			}
		};
		SlateV4 {
			ver: VersionCompatInfoV4 {
				version: 4,
				block_header_version: *rng.pick(&[1u16, 2, 3, 3, 65535]),
			},
			id: Uuid::from_slice(&rng.bytes(16)).unwrap(),
			sta,
			off,
			num_parts,
			amt,
			fee,
			feat,
			ttl,
			sigs,
			coms,
			proof,
			feat_args,
		}
	}

	pub fn slate(&self, rng: &mut Rng, st: &mut FieldStats, max_coms: usize) -> (SlateV4, Slate) {
		let v4 = self.slate_v4(rng, st, max_coms);
		let s = Slate::from(v4.clone());
		(v4, s)
	}

	pub fn address(&self, rng: &mut Rng) -> (DalekSecretKeyBytes, SlatepackAddress) {
		let (sk, pk) = rng.pick(&self.ed_keys).clone();
		(sk, SlatepackAddress::new(&pk))
	}
}

pub trait PadProof {
	fn pad(self, len: usize) -> RangeProof;
}
impl PadProof for RangeProof {
	fn pad(mut self, len: usize) -> RangeProof {
		self.plen = len;
		self
	}
}

// ---------------------------------------------------------------- deep equality on native fields

fn sorted_coms(v: &Option<Vec<CommitsV4>>) -> Option<Vec<(u8, Vec<u8>, Option<Vec<u8>>)>> {
	v.as_ref().map(|c| {
		let mut x: Vec<(u8, Vec<u8>, Option<Vec<u8>>)> = c
			.iter()
			.map(|c| {
				(
					c.f.0,
					c.c.0.to_vec(),
					c.p.map(|p| p.proof[..p.plen].to_vec()),
				)
			})
			.collect();
		x.sort();
		x
	})
}

/// Field-by-field comparison of two V4 slates; returns the names of differing fields.
pub fn diff_v4(a: &SlateV4, b: &SlateV4) -> Vec<String> {
	let mut d = vec![];
	if a.ver != b.ver {
		d.push("ver".into());
	}
	if a.id != b.id {
		d.push("id".into());
	}
	if format!("{:?}", a.sta) != format!("{:?}", b.sta) {
		d.push("sta".into());
	}
	if a.off != b.off {
		d.push("off".into());
	}
	if a.num_parts != b.num_parts {
		d.push("num_parts".into());
	}
	if a.amt != b.amt {
		d.push("amt".into());
	}
	if a.fee != b.fee {
		d.push("fee".into());
	}
	if a.feat != b.feat {
		d.push("feat".into());
	}
	if a.ttl != b.ttl {
		d.push("ttl".into());
	}
	if a.sigs != b.sigs {
		d.push("sigs".into());
	}
	if sorted_coms(&a.coms) != sorted_coms(&b.coms) {
		d.push("coms".into());
	}
	if a.proof != b.proof {
		d.push("proof".into());
	}
	if a.feat_args != b.feat_args {
		d.push(format!("feat_args(feat={})", a.feat));
	}
	d
}

/// Field-by-field comparison of two native slates; the transaction is compared as
/// (inputs, outputs incl. features and proofs, offset): the kernel is legitimately recomputed.
pub fn diff_slate(a: &Slate, b: &Slate) -> Vec<String> {
	let mut d = vec![];
	if a.version_info.version != b.version_info.version
		|| a.version_info.block_header_version != b.version_info.block_header_version
	{
		d.push("version_info".into());
	}
	if a.num_participants != b.num_participants {
		d.push("num_participants".into());
	}
	if a.id != b.id {
		d.push("id".into());
	}
	if a.state != b.state {
		d.push("state".into());
	}
	if a.amount != b.amount {
		d.push("amount".into());
	}
	if a.fee_fields != b.fee_fields {
		d.push("fee_fields".into());
	}
	if a.ttl_cutoff_height != b.ttl_cutoff_height {
		d.push("ttl_cutoff_height".into());
	}
	if a.kernel_features != b.kernel_features {
		d.push("kernel_features".into());
	}
	if a.offset != b.offset {
		d.push("offset".into());
	}
	if a.participant_data.len() != b.participant_data.len()
		|| a.participant_data.iter().zip(b.participant_data.iter()).any(|(x, y)| {
			x.public_blind_excess != y.public_blind_excess
				|| x.public_nonce != y.public_nonce
				|| x.part_sig != y.part_sig
		}) {
		d.push("participant_data".into());
	}
	let pp = |s: &Slate| {
		s.payment_proof
			.as_ref()
			.map(|p| (p.sender_address, p.receiver_address, p.receiver_signature))
	};
	if pp(a) != pp(b) {
		d.push("payment_proof".into());
	}
	let ka = a.kernel_features_args.as_ref().map(|k| k.lock_height);
	let kb = b.kernel_features_args.as_ref().map(|k| k.lock_height);
	if ka != kb {
		d.push(format!("kernel_features_args(feat={})", a.kernel_features));
	}
	let txp = |s: &Slate| {
		s.tx.as_ref().map(|t| {
			let mut ins: Vec<(u8, Vec<u8>)> = match t.inputs() {
				grin_core::core::Inputs::FeaturesAndCommit(v) => v.iter().map(|i| (i.features as u8, i.commit.0.to_vec())).collect(),
				grin_core::core::Inputs::CommitOnly(v) => v.iter().map(|i| (255u8, i.commitment().0.to_vec())).collect(),
			};
			ins.sort();
			let mut outs: Vec<(u8, Vec<u8>, Vec<u8>)> = t
				.outputs()
				.iter()
				.map(|o| {
					(
						o.features() as u8,
						o.commitment().0.to_vec(),
						o.proof().proof[..o.proof().plen].to_vec(),
					)
				})
				.collect();
			outs.sort();
			(ins, outs, t.offset.clone())
		})
	};
	if txp(a) != txp(b) {
		d.push("tx".into());
	}
	d
}
