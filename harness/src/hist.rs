//! History engine: random interleaved wallet operations over several slates, wallets and
//! accounts, with online monitors (M-excl C03, M-books C04, M-keypath C15, M-nonce/M-secrets C12).
//! Every monitor records violations under its own property id; a check reports only its own.

use crate::util::*;
use crate::world::*;
use grin_core::core::Committed;
use grin_keychain::Identifier;
use grin_util::secp::pedersen::Commitment;
use grin_util::ToHex;
use grin_wallet_libwallet as libwallet;
use grin_wallet_libwallet::{
	InitTxArgs, IssueInvoiceTxArgs, OutputData, OutputStatus, Slate, TxLogEntryType,
};
use serde_json::{json, Value};
use std::collections::{BTreeMap, BTreeSet};
use uuid::Uuid;

#[derive(Clone, Debug, PartialEq)]
pub enum Kind {
	Send,
	LateLock,
	Invoice,
}

#[derive(Clone, Debug)]
pub struct Flight {
	pub id: Uuid,
	pub kind: Kind,
	/// the wallet that spends
	pub payer: usize,
	/// the wallet that receives
	pub payee: usize,
	pub payer_acct: String,
	pub payee_acct: String,
	pub amount: u64,
	pub s1: Option<Slate>,
	pub s2: Option<Slate>,
	pub s3: Option<Slate>,
	pub locked: bool,
	pub received: bool,
	pub finalized: bool,
	pub posted: bool,
	pub cancelled_payer: bool,
	pub cancelled_payee: bool,
	pub minconf: u64,
	pub dead: bool,
}

#[derive(Clone, Debug, Default)]
pub struct Config {
	pub steps: usize,
	pub allow_cancel_after_post: bool,
	pub allow_minconf0: bool,
	pub duplicates: bool,
	pub outages: bool,
	pub restarts: bool,
	pub secrets_every: usize,
	pub max_in_flight: usize,
	pub invoices: bool,
	pub late_lock: bool,
	pub self_send: bool,
	/// C12: a counterparty sends an invoice that reuses the slate id of one of the victim's pending sends
	pub hostile_invoice: bool,
	/// C04: once per history, while transactions are pending, the chain grows by more than 50 blocks at once
	/// (a transaction that is finalized long before it is broadcast)
	pub burst: bool,
	/// C15: a mining node re-requests a coinbase naming the key of an earlier coinbase of this wallet
	/// (a still-unconfirmed candidate, or - a stale miner - one that is already confirmed)
	pub stale_coinbase: bool,
	/// invoices a wallet issues and pays itself (same or other account)
	pub self_invoice: bool,
	/// a third account per wallet
	pub third_account: bool,
}

pub struct Viol {
	pub prop: &'static str,
	pub signature: String,
	pub what: String,
	pub step: usize,
}

pub struct History<'a> {
	pub w: &'a mut World,
	pub cfg: Config,
	pub flights: Vec<Flight>,
	pub events: Vec<Value>,
	pub viols: Vec<Viol>,
	pub step: usize,
	pub scratch: String,
	/// accounts of each wallet
	pub accts: Vec<Vec<String>>,
	pub active: Vec<String>,
	/// accounts whose books may legitimately diverge (cancel after broadcast)
	pub tainted: BTreeSet<(usize, String)>,
	// monitors' state
	pub keypaths: BTreeMap<(usize, String), (String, u64, bool, usize)>,
	pub nonces: BTreeMap<(usize, String), String>,
	pub excesses: BTreeMap<(usize, String), String>,
	pub seen_commits: Vec<BTreeMap<String, (String, u64)>>,
	pub stats: BTreeMap<String, u64>,
	pub distinct: BTreeSet<u64>,
	pub transitions: BTreeMap<String, u64>,
	last_status: Vec<BTreeMap<String, String>>,
	/// (wallet, account root) in which an Unconfirmed output was reserved before its creating tx confirmed
	pub unconf_reserved: BTreeSet<(usize, String)>,
	pub emitted: Vec<(usize, String, Vec<u8>)>,
	pub max_live: usize,
	burst_done: bool,
}

fn acct_path(w: &Wallet, label: &str) -> Option<Identifier> {
	w.accounts().ok()?.into_iter().find(|a| a.label == label).map(|a| a.path)
}

impl<'a> History<'a> {
	pub fn new(w: &'a mut World, cfg: Config, scratch: &str) -> History<'a> {
		let n = w.wallets.len();
		let mut accts = vec![];
		for i in 0..n {
			let _ = w.wallets[i].create_account("acct1");
			let mut a = vec!["default".to_string(), "acct1".to_string()];
			if cfg.third_account {
				let _ = w.wallets[i].create_account("acct2");
				a.push("acct2".to_string());
			}
			accts.push(a);
		}
		History {
			w,
			cfg,
			flights: vec![],
			events: vec![],
			viols: vec![],
			step: 0,
			scratch: scratch.to_string(),
			accts,
			active: vec!["default".to_string(); n],
			tainted: BTreeSet::new(),
			keypaths: BTreeMap::new(),
			nonces: BTreeMap::new(),
			excesses: BTreeMap::new(),
			seen_commits: vec![BTreeMap::new(); n],
			stats: BTreeMap::new(),
			distinct: BTreeSet::new(),
			transitions: BTreeMap::new(),
			last_status: vec![BTreeMap::new(); n],
			unconf_reserved: BTreeSet::new(),
			emitted: vec![],
			max_live: 0,
			burst_done: false,
		}
	}

	fn stat(&mut self, k: &str) {
		*self.stats.entry(k.to_string()).or_insert(0) += 1;
	}

	fn viol(&mut self, prop: &'static str, sig: &str, what: &str) {
		self.viols.push(Viol {
			prop,
			signature: sig.to_string(),
			what: what.to_string(),
			step: self.step,
		});
	}

	fn ev(&mut self, op: &str, detail: Value, res: &str) {
		self.events.push(json!({"step": self.step, "op": op, "detail": detail, "result": res}));
	}

	pub fn tail(&self, n: usize) -> Vec<Value> {
		let s = self.events.len().saturating_sub(n);
		self.events[s..].to_vec()
	}

	// ------------------------------------------------------------ operations

	fn spendable(&self, wi: usize) -> u64 {
		self.w.wallets[wi]
			.info(false, 1)
			.map(|i| i.1.amount_currently_spendable)
			.unwrap_or(0)
	}

	fn emit(&mut self, wi: usize, what: &str, slate: &Slate) {
		// bytes handed to a counterparty, in every form the wallet would produce
		let j = serde_json::to_vec(slate).unwrap_or_default();
		self.emitted.push((wi, format!("{}:json", what), j));
		// nonce / excess bookkeeping (M-nonce)
		let sid = slate.id.to_string();
		let own: Vec<(String, String)> = slate
			.participant_data
			.iter()
			.map(|p| {
				let secp = grin_util::static_secp_instance();
				let secp = secp.lock();
				(
					hex(&p.public_nonce.serialize_vec(&secp, true)),
					hex(&p.public_blind_excess.serialize_vec(&secp, true)),
				)
			})
			.collect();
		self.check_offset_leak(wi, what, slate, None);
		// two different participant entries of one slate must not share nonce or excess
		for i in 0..own.len() {
			for k in (i + 1)..own.len() {
				if own[i].0 == own[k].0 {
					self.viol("C12", "C12|nonce-shared-within-slate", &format!("slate {} has two participant entries with the same public nonce", sid));
				}
				if own[i].1 == own[k].1 {
					self.viol("C12", "C12|excess-shared-within-slate", &format!("slate {} has two participant entries with the same public excess", sid));
				}
			}
		}
		// S1/I1 and S2/I2 slates carry only the emitting wallet's own entry
		if own.len() == 1 {
			let (n, x) = own[0].clone();
			if let Some(prev) = self.nonces.get(&(wi, n.clone())) {
				if *prev != sid {
					self.viol("C12", "C12|nonce-reused-across-slates", &format!("wallet {} contributed public nonce {} to slates {} and {}", wi, &n[..16], prev, sid));
				}
			}
			self.nonces.insert((wi, n), sid.clone());
			if let Some(prev) = self.excesses.get(&(wi, x.clone())) {
				if *prev != sid {
					self.viol("C12", "C12|excess-reused-across-slates", &format!("wallet {} contributed public excess {} to slates {} and {}", wi, &x[..16], prev, sid));
				}
			}
			self.excesses.insert((wi, x), sid);
			self.stat("nonces-recorded");
		}
	}

	/// M-secrets, public-data part: what a slate reveals must not let anyone compute a participant's secret
	/// blinding key. The offset (or the change of the offset made by this wallet, when the incoming slate's
	/// offset is known to the counterparty) equal to +/- that key does: (+/-)x*G == public_blind_excess.
	fn check_offset_leak(&mut self, wi: usize, what: &str, slate: &Slate, incoming_offset: Option<&grin_keychain::BlindingFactor>) {
		self.check_offset_leak_with(wi, what, slate, incoming_offset, &[]);
	}

	/// `known`: public excesses of the flight's participants seen in its earlier slates (a final slate may no
	/// longer carry them)
	fn check_offset_leak_with(&mut self, wi: usize, what: &str, slate: &Slate, incoming_offset: Option<&grin_keychain::BlindingFactor>, known: &[grin_util::secp::key::PublicKey]) {
		let secp = grin_util::static_secp_instance();
		let secp = secp.lock();
		let mut cands: Vec<(&str, grin_util::secp::key::SecretKey)> = vec![];
		if let Ok(sk) = slate.offset.secret_key(&secp) {
			cands.push(("offset", sk));
		}
		if let Some(inc) = incoming_offset {
			if let (Ok(o2), Ok(o1)) = (slate.offset.secret_key(&secp), inc.secret_key(&secp)) {
				if let Ok(d) = secp.blind_sum(vec![o2], vec![o1]) {
					cands.push(("offset minus the incoming slate's offset", d));
				}
			}
		}
		let mut hits: Vec<String> = vec![];
		for (name, sk) in cands.iter() {
			let pos = grin_util::secp::key::PublicKey::from_secret_key(&secp, sk).ok();
			let mut n = sk.clone();
			let neg = if n.neg_assign(&secp).is_ok() { grin_util::secp::key::PublicKey::from_secret_key(&secp, &n).ok() } else { None };
			for pe in slate.participant_data.iter().map(|p| p.public_blind_excess).chain(known.iter().cloned()) {
				if Some(pe) == pos {
					hits.push(name.to_string());
				} else if Some(pe) == neg {
					hits.push(format!("negated {}", name));
				}
			}
		}
		drop(secp);
		self.stat("secrets:offsets-checked-against-public-excesses");
		hits.sort();
		hits.dedup();
		for h in hits {
			let sig = format!("C12|secret-in-clear|blinding-key-equals-{}|message:{}", h.replace(' ', "-").replace("'", ""), what);
			let w = format!("wallet {} emitted slate {} ({}) whose {} is the secret blinding key of one of its participant entries: (+/-)x*G == public_blind_excess", wi, slate.id, what, h);
			self.viols.push(Viol { prop: "C12", signature: sig, what: w, step: self.step });
		}
	}

	fn set_acct(&mut self, wi: usize, label: &str) {
		if self.active[wi] != label {
			if self.w.wallets[wi].set_account(label).is_ok() {
				self.active[wi] = label.to_string();
			}
		}
	}

	pub fn op_mine(&mut self, rng: &mut Rng) {
		let to = match rng.below(3) {
			0 => None,
			k => Some((k - 1) as usize % self.w.wallets.len()),
		};
		let r = self.w.mine(to, true);
		match &r {
			Ok(txs) => {
				for t in txs {
					let ex = t.kernels()[0].excess;
					for f in self.flights.iter_mut() {
						if let Some(s3) = &f.s3 {
							if s3.tx.as_ref().map(|x| x.kernels()[0].excess) == Some(ex) {
								f.dead = true; // mined: nothing left to interleave
							}
						}
					}
				}
				self.stat("op:mine");
			}
			Err(_) => self.stat("op:mine-failed"),
		}
		self.ev("mine", json!({"to": to}), &format!("{:?}", r.as_ref().map(|t| t.len())));
	}

	pub fn op_init(&mut self, rng: &mut Rng) {
		let n = self.w.wallets.len();
		let payer = rng.usize(n);
		let mut payee = rng.usize(n);
		if payee == payer && !(self.cfg.self_send && rng.chance(1, 3)) {
			payee = (payer + 1) % n;
		}
		let payer_acct = rng.pick(&self.accts[payer].clone()).clone();
		let payee_acct = rng.pick(&self.accts[payee].clone()).clone();
		let kind = match rng.below(6) {
			0 if self.cfg.invoices => Kind::Invoice,
			1 if self.cfg.late_lock => Kind::LateLock,
			_ => Kind::Send,
		};
		if payer == payee && kind != Kind::Send && !(kind == Kind::Invoice && self.cfg.self_invoice) {
			return;
		}
		if payer == payee && kind == Kind::Invoice {
			self.stat("op:self-paid-invoice");
		}
		self.set_acct(payer, &payer_acct);
		let sp = self.spendable(payer);
		if sp < 200_000_000 {
			self.stat("op:init-skipped-no-funds");
			return;
		}
		let amount = match rng.below(4) {
			0 => sp / 2,
			1 => sp / 3 + rng.below(1000),
			2 => 50_000_000 + rng.below(sp / 4 + 1),
			_ => 1_000_000_000 + rng.below(1_000_000_000),
		};
		let minconf = if self.cfg.allow_minconf0 && rng.chance(1, 6) { 0 } else { *rng.pick(&[1u64, 1, 1, 2, 3]) };
		let args = InitTxArgs {
			src_acct_name: None,
			amount,
			minimum_confirmations: minconf,
			max_outputs: 500,
			num_change_outputs: *rng.pick(&[1u32, 1, 2, 3, 0]),
			selection_strategy_is_use_all: rng.bool(),
			late_lock: Some(kind == Kind::LateLock),
			..Default::default()
		};
		let detail = json!({"kind": format!("{:?}", kind), "payer": payer, "payee": payee, "payer_acct": payer_acct, "payee_acct": payee_acct, "amount": amount.to_string(), "minconf": minconf, "change": args.num_change_outputs, "use_all": args.selection_strategy_is_use_all});
		match kind {
			Kind::Send | Kind::LateLock => {
				let r = self.w.wallets[payer].init_send(args);
				match r {
					Ok(s) => {
						self.emit(payer, "S1", &s);
						self.flights.push(Flight {
							id: s.id,
							kind,
							payer,
							payee,
							payer_acct,
							payee_acct,
							amount,
							s1: Some(s),
							s2: None,
							s3: None,
							locked: false,
							received: false,
							finalized: false,
							posted: false,
							cancelled_payer: false,
							cancelled_payee: false,
							minconf,
							dead: false,
						});
						self.stat("op:init-send");
						self.ev("init_send", detail, "Ok");
					}
					Err(e) => {
						self.stat(&format!("op:init-send-refused:{}", err_kind(&e)));
						self.ev("init_send", detail, &format!("Err({})", err_kind(&e)));
					}
				}
			}
			Kind::Invoice => {
				self.set_acct(payee, &payee_acct);
				let r = self.w.wallets[payee].issue_invoice(IssueInvoiceTxArgs { amount, ..Default::default() });
				match r {
					Ok(s) => {
						self.emit(payee, "I1", &s);
						self.flights.push(Flight {
							id: s.id,
							kind,
							payer,
							payee,
							payer_acct,
							payee_acct,
							amount,
							s1: Some(s),
							s2: None,
							s3: None,
							locked: false,
							received: true, // the invoicer's output exists from the start
							finalized: false,
							posted: false,
							cancelled_payer: false,
							cancelled_payee: false,
							minconf,
							dead: false,
						});
						self.stat("op:issue-invoice");
						self.ev("issue_invoice", detail, "Ok");
					}
					Err(e) => {
						self.ev("issue_invoice", detail, &format!("Err({})", err_kind(&e)));
					}
				}
			}
		}
	}

	/// advance (or repeat) a step of a random flight
	pub fn op_advance(&mut self, rng: &mut Rng) {
		let live: Vec<usize> = (0..self.flights.len()).filter(|i| !self.flights[*i].dead).collect();
		if live.is_empty() {
			return;
		}
		let fi = *rng.pick(&live);
		let f = self.flights[fi].clone();
		let choice = rng.below(5);
		match f.kind {
			Kind::Send | Kind::LateLock => match choice {
				0 => self.do_lock(fi, rng),
				1 => self.do_receive(fi, rng),
				2 => self.do_finalize(fi, rng),
				3 => self.do_post(fi),
				_ => {
					// natural next step
					if !f.locked && f.kind == Kind::Send {
						self.do_lock(fi, rng)
					} else if !f.received {
						self.do_receive(fi, rng)
					} else if !f.finalized {
						self.do_finalize(fi, rng)
					} else {
						self.do_post(fi)
					}
				}
			},
			Kind::Invoice => match choice {
				0 => self.do_process_invoice(fi, rng),
				1 => self.do_lock(fi, rng),
				2 => self.do_finalize(fi, rng),
				3 => self.do_post(fi),
				_ => {
					if f.s2.is_none() {
						self.do_process_invoice(fi, rng)
					} else if !f.locked {
						self.do_lock(fi, rng)
					} else if !f.finalized {
						self.do_finalize(fi, rng)
					} else {
						self.do_post(fi)
					}
				}
			},
		}
	}

	/// Snapshot used by the idempotence monitor: (entries, outputs, locked outputs) of one wallet
	fn counts(&self, wi: usize) -> (usize, usize, usize, u64) {
		let outs = self.w.wallets[wi].all_outputs().unwrap_or_default();
		let txs = self.w.wallets[wi].all_txs().unwrap_or_default();
		let locked = outs.iter().filter(|o| o.status == OutputStatus::Locked).count();
		let digest = self.w.wallets[wi].projection().map(|p| {
			// child indices excluded: a refused repeat may burn a derivation index
			hash64(&(p.outs, p.txs, p.accounts))
		}).unwrap_or(0);
		(txs.len(), outs.len(), locked, digest)
	}

	/// M-excl idempotence clause: a repeated step with the same slate is refused or has no further effect
	fn judge_repeat(&mut self, what: &str, wi: usize, before: (usize, usize, usize, u64), ok: bool, same_account: bool) {
		// (a repeat that names another account of the same wallet is still a repeat of the step with the same
		// slate: the callers give it its own label)
		let _ = same_account;
		let after = self.counts(wi);
		self.stat(&format!("repeat:{}:{}", what, if ok { "ok" } else { "refused" }));
		if ok {
			if (after.0, after.1, after.2) != (before.0, before.1, before.2) {
				self.viol(
					"C03",
					&format!("C03|repeat-has-effect|{}", what),
					&format!("repeated {} returned Ok and changed (entries, outputs, locked) from {:?} to {:?}", what, (before.0, before.1, before.2), (after.0, after.1, after.2)),
				);
			}
		} else if after.3 != before.3 {
			self.viol(
				"C03",
				&format!("C03|refused-repeat-has-effect|{}", what),
				&format!("repeated {} was refused but changed wallet state", what),
			);
		}
	}

	fn do_lock(&mut self, fi: usize, rng: &mut Rng) {
		let f = self.flights[fi].clone();
		if f.kind == Kind::LateLock {
			// The command-line `send` calls tx_lock_outputs after every init_send_tx, late-locked or not
			// (controller/src/command.rs). Whatever the wallet answers, the flight must still complete as
			// a late-locked send whose inputs are reserved at finalization (judged there by M-excl).
			if !f.finalized && !f.cancelled_payer && !f.cancelled_payee && rng.chance(1, 2) {
				if let Some(s1) = f.s1.clone() {
					self.set_acct(f.payer, &f.payer_acct);
					let r = self.w.wallets[f.payer].lock_outputs(&s1);
					self.stat(&format!("op:lock-called-on-a-late-locked-send-before-finalize:{}", if r.is_ok() { "ok" } else { "refused" }));
					self.ev("tx_lock_outputs", json!({"slate": f.id.to_string(), "wallet": f.payer, "late_locked_send": true}), &format!("{:?}", r.as_ref().map_err(err_kind)));
				}
			}
			return;
		}
		let slate = match f.kind {
			Kind::Invoice => match &f.s2 {
				Some(s) => s.clone(),
				None => return,
			},
			_ => f.s1.clone().unwrap(),
		};
		if f.cancelled_payer {
			// the reserve step delivered once more after the wallet cancelled the transaction: still a repeat of
			// the same step with the same slate - refused, or without any further entry, output or reservation
			if f.locked && self.cfg.duplicates {
				self.set_acct(f.payer, &f.payer_acct);
				let before = self.counts(f.payer);
				let r = self.w.wallets[f.payer].lock_outputs(&slate);
				self.judge_repeat("tx_lock_outputs(after-cancel)", f.payer, before, r.is_ok(), true);
				self.ev("tx_lock_outputs", json!({"slate": f.id.to_string(), "wallet": f.payer, "repeat": true, "after_cancel": true}), &format!("{:?}", r.as_ref().map_err(err_kind)));
			}
			return;
		}
		let repeat = f.locked;
		if repeat && !self.cfg.duplicates {
			return;
		}
		self.set_acct(f.payer, &f.payer_acct);
		let before = self.counts(f.payer);
		let r = self.w.wallets[f.payer].lock_outputs(&slate);
		if repeat {
			self.judge_repeat("tx_lock_outputs", f.payer, before, r.is_ok(), true);
		}
		match &r {
			Ok(_) => {
				self.flights[fi].locked = true;
				self.stat("op:lock");
			}
			Err(e) => self.stat(&format!("op:lock-refused:{}", err_kind(e))),
		}
		self.ev("tx_lock_outputs", json!({"slate": f.id.to_string(), "wallet": f.payer, "repeat": repeat}), &format!("{:?}", r.as_ref().map_err(err_kind)));
	}

	fn do_receive(&mut self, fi: usize, rng: &mut Rng) {
		let f = self.flights[fi].clone();
		if f.kind == Kind::Invoice {
			return;
		}
		if f.cancelled_payee {
			// The same slate delivered again after the recipient cancelled its entry. The wallet accepts this
			// on purpose (its duplicate check looks for a live TxReceived entry only; the cancelled entry's
			// output is gone, so there is still one pending output per slate): a new attempt, not a repeat of
			// a step of a live transaction. Don't-care for the idempotence clause; not exercised here because
			// it would revive a flight the model considers finished.
			return;
		}
		let repeat = f.received;
		if repeat && !self.cfg.duplicates {
			return;
		}
		// sometimes deliver to the other account
		let acct = if repeat && rng.chance(1, 5) {
			self.accts[f.payee].iter().find(|a| **a != f.payee_acct).cloned().unwrap_or(f.payee_acct.clone())
		} else {
			f.payee_acct.clone()
		};
		let before = self.counts(f.payee);
		let r = self.w.wallets[f.payee].receive(f.s1.as_ref().unwrap(), Some(&acct));
		if repeat {
			self.judge_repeat(if acct == f.payee_acct { "receive_tx" } else { "receive_tx(into-another-account)" }, f.payee, before, r.is_ok(), acct == f.payee_acct);
		}
		match &r {
			Ok(s2) => {
				self.emit(f.payee, "S2", s2);
				if !repeat {
					self.flights[fi].s2 = Some(s2.clone());
					self.flights[fi].received = true;
				}
				self.stat("op:receive");
			}
			Err(e) => self.stat(&format!("op:receive-refused:{}", err_kind(e))),
		}
		self.ev("receive_tx", json!({"slate": f.id.to_string(), "wallet": f.payee, "acct": acct, "repeat": repeat}), &format!("{:?}", r.as_ref().map(|_| ()).map_err(err_kind)));
	}

	fn do_process_invoice(&mut self, fi: usize, rng: &mut Rng) {
		let f = self.flights[fi].clone();
		if f.cancelled_payer {
			return;
		}
		let repeat = f.s2.is_some();
		if repeat && !self.cfg.duplicates {
			return;
		}
		self.set_acct(f.payer, &f.payer_acct);
		// a repeat sometimes names another account of the payer as the source
		let other_src = if repeat && f.locked && rng.chance(1, 4) { self.accts[f.payer].iter().find(|a| **a != f.payer_acct).cloned() } else { None };
		let args = InitTxArgs {
			amount: 0,
			minimum_confirmations: f.minconf,
			num_change_outputs: *rng.pick(&[1u32, 2]),
			selection_strategy_is_use_all: rng.bool(),
			src_acct_name: other_src.clone(),
			..Default::default()
		};
		let before = self.counts(f.payer);
		let r = self.w.wallets[f.payer].process_invoice(f.s1.as_ref().unwrap(), args);
		if repeat && f.locked {
			// the duplicate check of process_invoice_tx looks at the log entry created by the lock step
			if let (Some(src), Ok(again)) = (other_src.as_ref(), r.as_ref()) {
				// accepted: the reserve step that follows a processed invoice then shows whether it had an effect
				let r2 = self.w.wallets[f.payer].lock_outputs(again);
				self.judge_repeat("process_invoice_tx+tx_lock_outputs(from-another-account)", f.payer, before, r2.is_ok(), true);
				if r2.is_ok() {
					self.set_acct(f.payer, src);
					let _ = self.w.wallets[f.payer].cancel(None, Some(f.id));
					self.set_acct(f.payer, &f.payer_acct);
				}
			} else {
				self.judge_repeat(if other_src.is_some() { "process_invoice_tx(from-another-account)" } else { "process_invoice_tx" }, f.payer, before, r.is_ok(), true);
			}
		}
		match &r {
			Ok(s2) => {
				self.emit(f.payer, "I2", s2);
				let inc = f.s1.as_ref().map(|s| s.offset.clone());
				self.check_offset_leak(f.payer, "I2", s2, inc.as_ref());
				let first = !repeat;
				if first {
					self.flights[fi].s2 = Some(s2.clone());
				}
				self.stat("op:process-invoice");
				// an invoice the wallet pays itself: sometimes the invoice half is finalized right away, before the
				// paying half has been reserved
				if first && f.payer == f.payee && rng.chance(1, 2) {
					self.do_finalize(fi, rng);
				}
			}
			Err(e) => self.stat(&format!("op:process-invoice-refused:{}", err_kind(e))),
		}
		self.ev("process_invoice_tx", json!({"slate": f.id.to_string(), "wallet": f.payer, "repeat": repeat}), &format!("{:?}", r.as_ref().map(|_| ()).map_err(err_kind)));
	}

	fn do_finalize(&mut self, fi: usize, _rng: &mut Rng) {
		let f = self.flights[fi].clone();
		let s2 = match &f.s2 {
			Some(s) => s.clone(),
			None => return,
		};
		let repeat = f.finalized;
		if repeat && !self.cfg.duplicates {
			return;
		}
		let (wi, acct) = match f.kind {
			Kind::Invoice => (f.payee, f.payee_acct.clone()),
			_ => (f.payer, f.payer_acct.clone()),
		};
		// a flight either side has cancelled is not completed (completing an invoice the payer has
		// cancelled is the payer's cancel-after-handover, not a wallet decision)
		// (an invoice the wallet pays itself: both halves are this wallet's, so it is the wallet's own business that the
		// paying half is reserved - and still reserved - when the invoice half is finalized)
		let self_paid = f.kind == Kind::Invoice && f.payer == f.payee;
		if (f.cancelled_payee || f.cancelled_payer) && !(self_paid && !f.cancelled_payee) {
			return;
		}
		if (f.kind == Kind::Send || f.kind == Kind::Invoice) && !f.locked && !self_paid {
			return; // the documented flows reserve the payer's outputs before finalizing
		}
		if self_paid && (!f.locked || f.cancelled_payer) && !repeat {
			self.stat("op:finalize-of-a-self-paid-invoice-whose-paying-half-is-not-reserved");
		}
		self.set_acct(wi, &acct);
		let before = self.counts(wi);
		let r = match f.kind {
			Kind::Invoice => self.w.wallets[wi].foreign_finalize(&s2),
			_ => self.w.wallets[wi].finalize(&s2),
		};
		if repeat {
			self.judge_repeat("finalize_tx", wi, before, r.is_ok(), true);
		}
		if f.kind == Kind::Invoice && f.payer == f.payee && !repeat {
			self.stat(&format!("op:finalize-of-a-self-paid-invoice:{}", match &r { Ok(_) => "ok".to_string(), Err(e) => format!("refused:{}", err_kind(e)) }));
		}
		match &r {
			Ok(s3) => {
				self.emit(wi, "S3", s3);
				// the step from the slate handed in to the slate handed back must not isolate a key either
				let known: Vec<grin_util::secp::key::PublicKey> = f.s1.iter().chain(f.s2.iter()).flat_map(|s| s.participant_data.iter().map(|p| p.public_blind_excess)).collect();
				self.check_offset_leak_with(wi, if f.kind == Kind::Invoice { "I3" } else { "S3" }, s3, Some(&s2.offset), &known);
				if !repeat {
					self.flights[fi].s3 = Some(s3.clone());
					self.flights[fi].finalized = true;
					if f.kind == Kind::LateLock {
						self.flights[fi].locked = true;
					}
					self.check_final_inputs(fi);
				}
				self.stat("op:finalize");
			}
			Err(e) => self.stat(&format!("op:finalize-refused:{}", err_kind(e))),
		}
		self.ev("finalize_tx", json!({"slate": f.id.to_string(), "wallet": wi, "repeat": repeat}), &format!("{:?}", r.as_ref().map(|_| ()).map_err(err_kind)));
	}

	/// M-excl: inputs of a finalized transaction are exactly outputs reserved for that slate
	fn check_final_inputs(&mut self, fi: usize) {
		let f = self.flights[fi].clone();
		let tx = match f.s3.as_ref().and_then(|s| s.tx.clone()) {
			Some(t) => t,
			None => return,
		};
		let wal = &self.w.wallets[f.payer];
		let txs = wal.all_txs().unwrap_or_default();
		let entry = txs.iter().find(|t| t.tx_slate_id == Some(f.id) && (t.tx_type == TxLogEntryType::TxSent || t.tx_type == TxLogEntryType::TxSentCancelled));
		let entry = match entry {
			Some(e) => e.clone(),
			None => {
				self.viol("C03", "C03|finalized-without-sent-entry", &format!("slate {} finalized but the payer has no TxSent entry", f.id));
				return;
			}
		};
		let outs = wal.all_outputs().unwrap_or_default();
		let mine: BTreeSet<String> = outs
			.iter()
			.filter(|o| o.tx_log_entry == Some(entry.id) && o.root_key_id == entry.parent_key_id && (o.status == OutputStatus::Locked || o.status == OutputStatus::Spent))
			.map(|o| wal.commit_of(o).to_hex())
			.collect();
		let all_mine: BTreeSet<String> = outs.iter().map(|o| wal.commit_of(o).to_hex()).collect();
		let mut pend: Vec<String> = vec![];
		for c in tx.inputs_committed() {
			let h = c.to_hex();
			if all_mine.contains(&h) && !mine.contains(&h) {
				let msg = format!("finalized tx of slate {} ({:?}, payer acct {}) spends output {} which is not reserved for that slate's entry {} (parent {}); that output's record: {:?}", f.id, f.kind, f.payer_acct, &h[..16], entry.id, idstr(&entry.parent_key_id),
						outs.iter().find(|o| wal.commit_of(o).to_hex() == h).map(|o| format!("{} {} root {} entry {:?}", idstr(&o.key_id), status_str(&o.status), idstr(&o.root_key_id), o.tx_log_entry)));
				pend.push(msg);
			}
		}
		for m in pend {
			self.viol("C03", "C03|finalized-tx-spends-output-not-reserved-for-it", &m);
		}
		self.stat("finalized-inputs-checked");
	}

	fn do_post(&mut self, fi: usize) {
		let f = self.flights[fi].clone();
		let tx = match f.s3.as_ref().and_then(|s| s.tx.clone()) {
			Some(t) => t,
			None => return,
		};
		if f.posted {
			return;
		}
		if (f.cancelled_payer || f.cancelled_payee) && !self.cfg.allow_cancel_after_post {
			return; // posting a transaction one side has cancelled is the cancel-after-broadcast case
		}
		let r = self.w.wallets[f.payer].post(&tx);
		match &r {
			Ok(_) => {
				self.flights[fi].posted = true;
				if f.cancelled_payer {
					self.tainted.insert((f.payer, f.payer_acct.clone()));
				}
				if f.cancelled_payee {
					self.tainted.insert((f.payee, f.payee_acct.clone()));
				}
				self.stat("op:post");
			}
			Err(_) => self.stat("op:post-refused"),
		}
		self.ev("post_tx", json!({"slate": f.id.to_string()}), &format!("{:?}", r.as_ref().map_err(err_kind)));
	}

	/// C12: the peer sends an invoice whose slate id is that of one of the victim's own pending sends
	/// (it knows the id from the S1 slate it was given). Paying it must not reveal the payer's key nor
	/// destroy the pending send's private data.
	pub fn op_hostile_invoice(&mut self, rng: &mut Rng) {
		// the id reused is that of one of the victim's pending sends, or of an invoice the victim itself issued (and the
		// counterparty has not paid yet)
		let cands: Vec<usize> = (0..self.flights.len())
			.filter(|i| {
				let f = &self.flights[*i];
				!f.dead && !f.finalized && f.payer != f.payee && ((f.kind != Kind::Invoice && !f.cancelled_payer) || (f.kind == Kind::Invoice && f.s2.is_none() && !f.cancelled_payee))
			})
			.collect();
		if cands.is_empty() {
			return;
		}
		let fi = *rng.pick(&cands);
		let f = self.flights[fi].clone();
		let own_invoice = f.kind == Kind::Invoice;
		let (victim, peer) = if own_invoice { (f.payee, f.payer) } else { (f.payer, f.payee) };
		let inv = match self.w.wallets[peer].issue_invoice(IssueInvoiceTxArgs { amount: 50_000_000 + rng.below(500_000_000), ..Default::default() }) {
			Ok(mut s) => {
				let orig = s.id;
				s.id = f.id;
				let _ = self.w.wallets[peer].cancel(None, Some(orig));
				s
			}
			Err(_) => return,
		};
		let vacct = if own_invoice { f.payee_acct.clone() } else { f.payer_acct.clone() };
		self.set_acct(victim, &vacct);
		let ctx_before = self.w.wallets[victim].context(&f.id).ok().map(|c| (c.sec_key.0, c.sec_nonce.0, c.input_ids.len(), c.output_ids.len()));
		let args = InitTxArgs { amount: 0, minimum_confirmations: 1, num_change_outputs: 1, selection_strategy_is_use_all: false, ..Default::default() };
		let r = self.w.wallets[victim].process_invoice(&inv, args);
		match &r {
			Ok(s2) => {
				self.emitted.push((victim, "I2(hostile-id)".to_string(), serde_json::to_vec(s2).unwrap_or_default()));
				self.check_offset_leak(victim, if own_invoice { "I2(invoice-reusing-the-id-of-an-invoice-the-victim-issued)" } else { "I2(invoice-reusing-the-id-of-a-pending-send)" }, s2, Some(&inv.offset));
				let ctx_after = self.w.wallets[victim].context(&f.id).ok().map(|c| (c.sec_key.0, c.sec_nonce.0, c.input_ids.len(), c.output_ids.len()));
				if ctx_before.is_some() && ctx_after != ctx_before {
					self.stat("hostile-invoice:accepted-and-replaced-the-pending-sends-context");
				}
				// the pending send's private data is gone: nothing left to interleave for that flight
				self.flights[fi].dead = true;
				let _ = self.w.wallets[victim].cancel(None, Some(f.id));
				self.stat("op:hostile-invoice:accepted");
			}
			Err(e) => self.stat(&format!("op:hostile-invoice{}:refused:{}", if own_invoice { "(id of own invoice)" } else { "" }, err_kind(e))),
		}
		self.ev("process_invoice_tx(hostile: reuses pending send id)", json!({"slate": f.id.to_string(), "wallet": victim}), &format!("{:?}", r.as_ref().map(|_| ()).map_err(err_kind)));
	}

	/// the chain grows by more than 50 blocks while transactions are pending (nothing from the pool is mined
	/// during the burst: a pending transaction stays pending), then the wallets look
	pub fn op_burst(&mut self, rng: &mut Rng) {
		let n = 51 + rng.usize(6);
		let mut ok = 0;
		for _ in 0..n {
			if self.w.mine(None, false).is_ok() {
				ok += 1;
			}
		}
		self.burst_done = true;
		self.stat("op:burst-of-more-than-50-blocks");
		self.ev("mine-burst", json!({"blocks": ok}), "Ok");
	}

	/// C15: `build_coinbase` with `key_id` naming an existing coinbase record of the wallet. Only a still
	/// unconfirmed candidate may be replaced on its path; for any other record the wallet must hand out a
	/// fresh path (judged by M-keypath after the step). The candidate built here is never mined.
	pub fn op_stale_coinbase(&mut self, rng: &mut Rng) {
		let wi = rng.usize(self.w.wallets.len());
		let outs = self.w.wallets[wi].all_outputs().unwrap_or_default();
		// (this includes a candidate the wallet still records as unconfirmed although its block has been mined:
		// it is no longer a candidate, so naming it must yield a fresh path too)
		let cbs: Vec<&OutputData> = outs.iter().filter(|o| o.is_coinbase).collect();
		if cbs.is_empty() {
			return;
		}
		let lagging: Vec<&OutputData> = cbs.iter().cloned().filter(|o| o.status == OutputStatus::Unconfirmed && self.w.is_unspent(&self.w.wallets[wi].commit_of(o))).collect();
		let o = if !lagging.is_empty() && rng.chance(1, 2) { *rng.pick(&lagging) } else { *rng.pick(&cbs) };
		let was_lagging = o.status == OutputStatus::Unconfirmed && self.w.is_unspent(&self.w.wallets[wi].commit_of(o));
		let fees = 1_000_000 * (1 + rng.below(50));
		let bf = libwallet::BlockFees { fees, key_id: Some(o.key_id.clone()), height: self.w.height() + 1 };
		let r = self.w.wallets[wi].build_coinbase(&bf);
		self.stat(&format!("op:coinbase-request-naming-{}-coinbase:{}", if was_lagging { "a-mined-but-not-yet-refreshed" } else if o.status == OutputStatus::Unconfirmed { "an-unconfirmed" } else { "a-confirmed" }, if r.is_ok() { "ok" } else { "refused" }));
		self.ev("build_coinbase(key named)", json!({"wallet": wi, "named": idstr(&o.key_id), "named_status": status_str(&o.status), "fees": fees}), &format!("{:?}", r.as_ref().map(|c| c.key_id.as_ref().map(idstr)).map_err(err_kind)));
	}

	/// A miner's two requests for one block: the first builds a candidate while account X is active, the
	/// second - after the wallet's owner switched to account Y - names that candidate's key (allowed: it is
	/// still an unconfirmed candidate); the block is then mined with the second answer.
	pub fn op_coinbase_rerequest_other_account(&mut self, rng: &mut Rng) {
		let wi = rng.usize(self.w.wallets.len());
		let accts = self.accts[wi].clone();
		if accts.len() < 2 {
			return;
		}
		let x = rng.pick(&accts).clone();
		let y = accts.iter().find(|a| **a != x).cloned().unwrap();
		self.set_acct(wi, &x);
		let h = self.w.height() + 1;
		let first = match self.w.wallets[wi].build_coinbase(&libwallet::BlockFees { fees: 0, key_id: None, height: h }) {
			Ok(c) => c,
			Err(_) => return,
		};
		self.set_acct(wi, &y);
		let second = match self.w.wallets[wi].build_coinbase(&libwallet::BlockFees { fees: 0, key_id: first.key_id.clone(), height: h }) {
			Ok(c) => c,
			Err(_) => return,
		};
		let chain = self.w.chain();
		let r = (|| -> Result<(), String> {
			let prev = chain.head_header().map_err(|e| format!("{:?}", e))?;
			let b = build_block(&chain, &prev, &[], second.output.clone(), second.kernel.clone())?;
			chain.process_block(b, grin_chain::Options::MINE).map_err(|e| format!("{:?}", e))?;
			Ok(())
		})();
		self.stat(&format!("op:coinbase-re-requested-under-another-active-account:{}", if r.is_ok() { "mined" } else { "not-mined" }));
		self.ev("build_coinbase x2 (second names the first's key, other account active) + mine", json!({"wallet": wi, "first_account": x, "second_account": y, "same_key": first.key_id == second.key_id}), &format!("{:?}", r));
	}

	pub fn op_cancel(&mut self, rng: &mut Rng) {
		let live: Vec<usize> = (0..self.flights.len()).filter(|i| !self.flights[*i].dead).collect();
		if live.is_empty() {
			return;
		}
		let fi = *rng.pick(&live);
		let f = self.flights[fi].clone();
		if f.posted && !self.cfg.allow_cancel_after_post {
			return;
		}
		let payer_side = rng.bool();
		let (wi, acct) = if payer_side { (f.payer, f.payer_acct.clone()) } else { (f.payee, f.payee_acct.clone()) };
		self.set_acct(wi, &acct);
		let r = self.w.wallets[wi].cancel(None, Some(f.id));
		if r.is_ok() {
			if payer_side {
				self.flights[fi].cancelled_payer = true;
			} else {
				self.flights[fi].cancelled_payee = true;
			}
			if f.posted {
				self.tainted.insert((wi, acct.clone()));
			}
			if f.payer == f.payee {
				// self-send: both entries share the slate id
				self.flights[fi].cancelled_payer = true;
				self.flights[fi].cancelled_payee = true;
			}
			if self.flights[fi].cancelled_payer && self.flights[fi].cancelled_payee && !f.posted {
				self.flights[fi].dead = true;
			}
			self.stat("op:cancel");
		} else {
			self.stat("op:cancel-refused");
		}
		self.ev("cancel_tx", json!({"slate": f.id.to_string(), "wallet": wi, "acct": acct}), &format!("{:?}", r.as_ref().map_err(err_kind)));
	}

	pub fn op_refresh(&mut self, rng: &mut Rng) {
		let wi = rng.usize(self.w.wallets.len());
		let acct = rng.pick(&self.accts[wi].clone()).clone();
		self.set_acct(wi, &acct);
		let outage = self.cfg.outages && rng.chance(1, 6);
		if outage {
			let k = 1 + rng.below(8);
			self.w.node.fail_kth_from_now(k);
		}
		let r = self.w.wallets[wi].info(true, 1);
		self.w.node.clear_faults();
		match r {
			Ok((true, _)) => {
				self.stat("op:refresh-validated");
				self.ev("refresh", json!({"wallet": wi, "acct": acct, "outage": outage}), "validated");
				self.judge_books(wi, &acct);
			}
			Ok((false, _)) => {
				self.stat("op:refresh-not-validated");
				self.ev("refresh", json!({"wallet": wi, "acct": acct, "outage": outage}), "not-validated");
			}
			Err(e) => {
				self.stat(&format!("op:refresh-error:{}", err_kind(&e)));
				self.ev("refresh", json!({"wallet": wi, "acct": acct, "outage": outage}), &format!("Err({})", err_kind(&e)));
			}
		}
	}

	pub fn op_restart(&mut self, rng: &mut Rng) {
		let wi = rng.usize(self.w.wallets.len());
		let r = self.w.restart_wallet(wi);
		if r.is_ok() {
			let a = self.active[wi].clone();
			let _ = self.w.wallets[wi].set_account(&a);
			self.stat("op:restart");
		}
		self.ev("restart", json!({"wallet": wi}), &format!("{:?}", r.as_ref().map_err(err_kind)));
	}

	// ------------------------------------------------------------ monitors run after every step

	pub fn after_step(&mut self, op_wallet_acct: Option<(usize, String)>, before: &[Projection]) {
		let n = self.w.wallets.len();
		let mut live_now = 0;
		let mut pend: Vec<(&'static str, String, String)> = vec![];
		for wi in 0..n {
			let wal = &self.w.wallets[wi];
			let outs = match wal.all_outputs() {
				Ok(o) => o,
				Err(_) => continue,
			};
			let txs = wal.all_txs().unwrap_or_default();
			// ---- M-excl: every Locked output belongs to exactly one live TxSent of its account
			let live: Vec<&libwallet::TxLogEntry> = txs.iter().filter(|t| t.tx_type == TxLogEntryType::TxSent && !t.confirmed).collect();
			live_now += live.len();
			let mut excl_v: Vec<(String, String)> = vec![];
			for o in outs.iter().filter(|o| o.status == OutputStatus::Locked) {
				let owner = live.iter().filter(|t| Some(t.id) == o.tx_log_entry && t.parent_key_id == o.root_key_id).count();
				if owner != 1 {
					excl_v.push(("C03|locked-output-without-live-transaction".to_string(), format!("wallet {}: output {} is Locked but {} live sent transactions claim it (entry {:?})", wi, idstr(&o.key_id), owner, o.tx_log_entry)));
				}
			}
			// live sent entries whose reserved inputs are fewer than logged: an input was taken by another slate
			for t in live.iter() {
				let linked: Vec<&OutputData> = outs.iter().filter(|o| o.tx_log_entry == Some(t.id) && o.root_key_id == t.parent_key_id && (o.status == OutputStatus::Locked || o.status == OutputStatus::Spent)).collect();
				let val: u64 = linked.iter().map(|o| o.value).sum();
				if linked.len() != t.num_inputs || val != t.amount_debited {
					excl_v.push(("C03|live-transaction-lost-its-reserved-inputs".to_string(), format!("wallet {}: live sent entry {} logs {} inputs worth {} but {} outputs worth {} are reserved for it (another transaction re-reserved them)", wi, t.id, t.num_inputs, t.amount_debited, linked.len(), val)));
				}
			}
			// pairwise disjoint inputs of finalized live transactions of this wallet
			let mut seen: BTreeMap<String, Uuid> = BTreeMap::new();
			for f in self.flights.iter().filter(|f| f.payer == wi && f.finalized && !f.cancelled_payer && !f.dead) {
				if let Some(tx) = f.s3.as_ref().and_then(|s| s.tx.as_ref()) {
					for c in tx.inputs_committed() {
						let h = c.to_hex();
						if let Some(other) = seen.get(&h) {
							if *other != f.id {
								excl_v.push(("C03|two-live-transactions-share-an-input".to_string(), format!("wallet {}: finalized live transactions {} and {} both spend output {}", wi, other, f.id, &h[..16])));
							}
						}
						seen.insert(h, f.id);
					}
				}
			}
			for (s, w) in excl_v {
				pend.push(("C03", s, w));
			}
			// ---- M-keypath
			for o in outs.iter() {
				let c = wal.commit_of(o).to_hex();
				let k = (wi, idstr(&o.key_id));
				match self.keypaths.get(&k) {
					None => {
						self.keypaths.insert(k, (c.clone(), o.value, o.is_coinbase && o.status == OutputStatus::Unconfirmed, self.step));
					}
					Some((pc, pv, was_cb_candidate, at)) => {
						if *pc != c || *pv != o.value {
							// exception: a coinbase request may name the still-unconfirmed candidate it replaces - a
							// candidate, that is, which has not been mined (the wallet's record lags behind the chain
							// until the next refresh; the wallet has a node to ask)
							let prev_mined = unhex(pc).map(|b| self.w.is_unspent(&Commitment::from_vec(b))).unwrap_or(false);
							if *was_cb_candidate && o.is_coinbase && prev_mined {
								let msg = format!("wallet {}: derivation path {} was used at step {} for the coinbase ({}, {}), which is on chain, and is now used for the new candidate ({}, {})", wi, idstr(&o.key_id), at, &pc[..16], pv, &c[..16], o.value);
								pend.push(("C15", "C15|path-used-for-two-outputs|replaced-candidate-was-already-mined".to_string(), msg));
								let upd = (c.clone(), o.value, o.status == OutputStatus::Unconfirmed, self.step);
								self.keypaths.insert(k, upd);
							} else if *was_cb_candidate && o.is_coinbase {
								let upd = (c.clone(), o.value, o.status == OutputStatus::Unconfirmed, self.step);
								self.keypaths.insert(k, upd);
							} else {
								let msg = format!("wallet {}: derivation path {} first used at step {} for ({}, {}) is now used for ({}, {})", wi, idstr(&o.key_id), at, &pc[..16], pv, &c[..16], o.value);
								pend.push(("C15", "C15|path-used-for-two-outputs".to_string(), msg));
							}
						} else if *was_cb_candidate && !(o.is_coinbase && o.status == OutputStatus::Unconfirmed) {
							let upd = (c.clone(), o.value, false, *at);
							self.keypaths.insert(k, upd);
						}
					}
				}
				self.seen_commits[wi].insert(c.clone(), (idstr(&o.root_key_id), o.value));
				// status transitions for the evidence
				let prev = self.last_status[wi].insert(c, status_str(&o.status).to_string());
				if let Some(p) = prev {
					if p != status_str(&o.status) {
						*self.transitions.entry(format!("{}->{}", p, status_str(&o.status))).or_insert(0) += 1;
						if p == "Unconfirmed" && o.status == OutputStatus::Locked {
							self.unconf_reserved.insert((wi, idstr(&o.root_key_id)));
						}
					}
				}
			}
			// two current records sharing a path
			let mut paths: BTreeMap<String, usize> = BTreeMap::new();
			for o in outs.iter() {
				*paths.entry(idstr(&o.key_id)).or_insert(0) += 1;
			}
			if let Some((p, c)) = paths.iter().find(|(_, c)| **c > 1) {
				pend.push(("C15", "C15|two-records-share-a-path".to_string(), format!("wallet {}: {} output records share derivation path {}", wi, c, p)));
			}
			// ---- cross-account clause of C04: an operation of account X never locks/spends account Y's outputs
			if let Some((owi, oacct)) = &op_wallet_acct {
				if *owi == wi {
					if let Some(path) = acct_path(wal, oacct) {
						let b: BTreeMap<(String, Option<u64>), &POut> = before[wi].outs.iter().map(|o| ((o.key_id.clone(), o.mmr), o)).collect();
						for o in outs.iter() {
							if o.root_key_id == path {
								continue;
							}
							if let Some(prev) = b.get(&(idstr(&o.key_id), o.mmr_index)) {
								let now = status_str(&o.status);
								if prev.status != now && (now == "Locked" || now == "Spent") {
									pend.push(("C04", "C04|operation-touched-other-account".to_string(), format!("wallet {}: an operation on account {} changed output {} of another account from {} to {}", wi, oacct, idstr(&o.key_id), prev.status, now)));
								}
							}
						}
					}
				}
			}
		}
		for (p, s, w) in pend {
			self.viol(p, &s, &w);
		}
		if live_now > self.max_live {
			self.max_live = live_now;
		}
	}

	/// M-books: after a validated refresh of (wallet, account)
	pub fn judge_books(&mut self, wi: usize, acct: &str) {
		if self.tainted.contains(&(wi, acct.to_string())) {
			self.stat("books:skipped-tainted");
			return;
		}
		let wal = &self.w.wallets[wi];
		let path = match acct_path(wal, acct) {
			Some(p) => p,
			None => return,
		};
		let outs: Vec<OutputData> = wal.all_outputs().unwrap_or_default().into_iter().filter(|o| o.root_key_id == path).collect();
		let txs: Vec<libwallet::TxLogEntry> = wal.all_txs().unwrap_or_default().into_iter().filter(|t| t.parent_key_id == path).collect();
		let chain = self.w.chain();
		let tip = chain.head().unwrap().height;
		let mut v: Vec<(String, String)> = vec![];
		// (i) unspent/reserved records are exactly the account's outputs in the UTXO set
		for o in outs.iter() {
			let c = wal.commit_of(o);
			let in_utxo = matches!(chain.get_unspent(c), Ok(Some(_)));
			let says = o.status == OutputStatus::Unspent || o.status == OutputStatus::Locked;
			if in_utxo != says {
				// a coinbase candidate of a block the harness failed to mine is never in the UTXO set and stays Unconfirmed: consistent
				v.push((
					format!("C04|utxo-mismatch|status={}|in_utxo={}|coinbase={}", status_str(&o.status), in_utxo, o.is_coinbase),
					format!("wallet {} account {}: output {} value {} is {} in the wallet but in_utxo={} (height {}, entry {:?})", wi, acct, idstr(&o.key_id), o.value, status_str(&o.status), in_utxo, o.height, o.tx_log_entry),
				));
			}
		}
		// "that account's outputs": a record kept under this account must carry a key of this account
		// (the chain's truth - what a restore would attribute - goes by the key's derivation path)
		for o in outs.iter() {
			if o.key_id.parent_path() != path {
				v.push(("C04|output-recorded-under-an-account-its-key-does-not-belong-to".to_string(), format!("wallet {} account {}: output {} value {} status {} is recorded under this account but its key belongs to account path {}", wi, acct, idstr(&o.key_id), o.value, status_str(&o.status), idstr(&o.key_id.parent_path()))));
			}
		}
		// every commitment this account ever held that is in the UTXO set must still be recorded
		let recorded: BTreeSet<String> = outs.iter().map(|o| wal.commit_of(o).to_hex()).collect();
		for (c, (root, value)) in self.seen_commits[wi].iter() {
			if *root == idstr(&path) && !recorded.contains(c) {
				if let Some(b) = unhex(c) {
					if matches!(chain.get_unspent(Commitment::from_vec(b)), Ok(Some(_))) {
						v.push(("C04|utxo-output-forgotten".to_string(), format!("wallet {} account {}: output {} (value {}) is in the UTXO set but no longer recorded", wi, acct, &c[..16], value)));
					}
				}
			}
		}
		// (ii) reported figures partition the values according to chain truth
		for minconf in [0u64, 1, 3, 10].iter() {
			let info = match wal.info(false, *minconf) {
				Ok(i) => i.1,
				Err(_) => continue,
			};
			let (mut spend, mut immature, mut awaiting, mut locked) = (0u64, 0u64, 0u64, 0u64);
			for o in outs.iter() {
				let c = wal.commit_of(o);
				let pos = match chain.get_unspent(c) {
					Ok(Some((_, p))) => p,
					_ => {
						if o.status == OutputStatus::Unconfirmed && !o.is_coinbase && *minconf == 0 {
							awaiting += o.value;
						}
						continue;
					}
				};
				if o.status == OutputStatus::Locked {
					locked += o.value;
					continue;
				}
				let is_cb = chain.get_unspent_output_at(pos.pos - 1).map(|x| x.is_coinbase()).unwrap_or(o.is_coinbase);
				let conf = tip + 1 - pos.height;
				if is_cb && pos.height + grin_core::global::coinbase_maturity() > tip {
					immature += o.value;
				} else if conf < *minconf {
					awaiting += o.value;
				} else {
					spend += o.value;
				}
			}
			let total = spend + awaiting + immature;
			if info.amount_currently_spendable != spend || info.amount_immature != immature || info.amount_awaiting_confirmation != awaiting || info.amount_locked != locked || info.total != total {
				v.push((
					format!("C04|figures|minconf={}", minconf),
					format!("wallet {} account {} minconf {} at tip {}: reported spendable/immature/awaiting/locked/total = {}/{}/{}/{}/{} but chain truth gives {}/{}/{}/{}/{}", wi, acct, minconf, tip,
						info.amount_currently_spendable, info.amount_immature, info.amount_awaiting_confirmation, info.amount_locked, info.total, spend, immature, awaiting, locked, total),
				));
			}
		}
		// (iii) ledger equality
		let held: u128 = outs.iter().filter(|o| o.status == OutputStatus::Unspent || o.status == OutputStatus::Locked).map(|o| o.value as u128).sum();
		let cred: u128 = txs.iter().filter(|t| t.confirmed).map(|t| t.amount_credited as u128).sum();
		let deb: u128 = txs.iter().filter(|t| t.confirmed).map(|t| t.amount_debited as u128).sum();
		if cred < deb || held != cred - deb {
			let od: Vec<String> = outs.iter().map(|o| format!("{}:{}:{}:h{}:e{:?}{}", &idstr(&o.key_id)[8..20], status_str(&o.status), o.value, o.height, o.tx_log_entry, if o.is_coinbase { ":cb" } else { "" })).collect();
			let td: Vec<String> = txs.iter().map(|t| format!("#{}:{}:{}:+{}:-{}", t.id, type_str(&t.tx_type), if t.confirmed { "conf" } else { "unconf" }, t.amount_credited, t.amount_debited)).collect();
			v.push(("C04|ledger".to_string(), format!("wallet {} account {}: unspent+locked = {} but confirmed credits - debits = {} - {}; outputs {:?}; entries {:?}", wi, acct, held, cred, deb, od, td)));
		}
		let cls = (outs.iter().filter(|o| o.status == OutputStatus::Unspent).count(), outs.iter().filter(|o| o.status == OutputStatus::Locked).count(), outs.iter().filter(|o| o.status == OutputStatus::Unconfirmed).count(), outs.iter().filter(|o| o.status == OutputStatus::Spent).count(), txs.iter().filter(|t| t.confirmed).count(), txs.len());
		self.distinct.insert(hash64(&("books", cls)));
		self.stat("books:judged");
		// Known root cause (see known_findings.json): an Unconfirmed output that was reserved by a
		// minimum_confirmations=0 spend before its creating transaction confirmed loses the link to
		// that transaction. Every mismatch in an account where this happened is reported under one
		// signature naming the cause; mismatches in other accounts keep their specific signature.
		let caused = self.unconf_reserved.contains(&(wi, idstr(&path)));
		for (s, w) in v {
			if caused {
				self.viol("C04", "C04|books-mismatch|cause=unconfirmed-output-reserved-before-its-transaction-confirmed", &format!("[{}] {}", s, w));
			} else {
				self.viol("C04", &s, &w);
			}
		}
	}

	/// M-secrets (C12a): raw files and emitted messages must not contain seeds, phrases or context secrets
	pub fn judge_secrets(&mut self) {
		let n = self.w.wallets.len();
		for wi in 0..n {
			let wal = &self.w.wallets[wi];
			let seed = grin_keychain::mnemonic::to_entropy(&wal.mnemonic).unwrap_or_default();
			let mut needles: Vec<(String, Vec<u8>)> = vec![];
			let mut add_secret = |name: &str, b: &[u8], needles: &mut Vec<(String, Vec<u8>)>| {
				needles.push((format!("{}:raw", name), b.to_vec()));
				needles.push((format!("{}:hex", name), hex(b).into_bytes()));
				needles.push((format!("{}:HEX", name), hex(b).to_uppercase().into_bytes()));
				needles.push((format!("{}:base64", name), base64::encode(b).into_bytes()));
				let arr: Vec<String> = b.iter().map(|x| x.to_string()).collect();
				needles.push((format!("{}:json-array", name), format!("[{}]", arr.join(",")).into_bytes()));
			};
			add_secret("seed", &seed, &mut needles);
			let words: Vec<&str> = wal.mnemonic.split(' ').collect();
			for i in 0..words.len().saturating_sub(3) {
				needles.push(("phrase-4-words".to_string(), words[i..i + 4].join(" ").into_bytes()));
			}
			// secrets of the stored contexts of live flights
			let ids: Vec<Uuid> = self.flights.iter().filter(|f| f.payer == wi || f.payee == wi).map(|f| f.id).collect();
			let mut n_ctx = 0;
			for id in ids {
				if let Ok(ctx) = wal.context(&id) {
					n_ctx += 1;
					add_secret("context.sec_key", &ctx.sec_key.0, &mut needles);
					add_secret("context.sec_nonce", &ctx.sec_nonce.0, &mut needles);
					add_secret("context.initial_sec_key", &ctx.initial_sec_key.0, &mut needles);
					add_secret("context.initial_sec_nonce", &ctx.initial_sec_nonce.0, &mut needles);
				}
			}
			*self.stats.entry("secrets:contexts-searched".to_string()).or_insert(0) += n_ctx;
			// haystacks: every file under the wallet directory (LMDB file raw, free pages included)
			let mut hays: Vec<(String, Vec<u8>)> = vec![];
			fn walk(dir: &std::path::Path, out: &mut Vec<(String, Vec<u8>)>) {
				if let Ok(rd) = std::fs::read_dir(dir) {
					for e in rd.flatten() {
						let p = e.path();
						if p.is_dir() {
							walk(&p, out);
						} else if e.file_name() != "lock.mdb" {
							out.push((p.to_string_lossy().to_string(), std::fs::read(&p).unwrap_or_default()));
						}
					}
				}
			}
			walk(std::path::Path::new(&wal.dir), &mut hays);
			for (who, what, bytes) in self.emitted.iter() {
				if *who == wi {
					hays.push((format!("message:{}", what), bytes.clone()));
				}
			}
			let mut found: Vec<(String, String)> = vec![];
			for (hn, h) in hays.iter() {
				for (nn, nd) in needles.iter() {
					if nd.len() >= 8 && h.len() >= nd.len() && h.windows(nd.len()).any(|w| w == &nd[..]) {
						let place = if hn.starts_with("message:") { hn.clone() } else if hn.ends_with("data.mdb") { "file:data.mdb".to_string() } else if hn.ends_with(".grintx") { "file:stored-tx".to_string() } else { format!("file:{}", hn.rsplit('/').next().unwrap_or("")) };
						found.push((format!("C12|secret-in-clear|{}|{}", nn, place), format!("wallet {}: {} found in {}", wi, nn, hn)));
					}
				}
			}
			*self.stats.entry("secrets:haystacks-searched".to_string()).or_insert(0) += hays.len() as u64;
			found.sort();
			found.dedup_by(|a, b| a.0 == b.0);
			for (s, w) in found {
				self.viol("C12", &s, &w);
			}
		}
		self.emitted.clear();
	}

	// ------------------------------------------------------------ driver

	pub fn run(&mut self, rng: &mut Rng) {
		// funding
		for i in 0..self.w.wallets.len() {
			for a in self.accts[i].clone() {
				self.set_acct(i, &a);
				let _ = self.w.mine_n(Some(i), 3);
			}
		}
		let _ = self.w.mine_n(None, 3);
		for i in 0..self.w.wallets.len() {
			for a in self.accts[i].clone() {
				self.set_acct(i, &a);
				let _ = self.w.wallets[i].refresh();
			}
		}
		for _ in 0..self.cfg.steps {
			self.step += 1;
			let before: Vec<Projection> = self.w.wallets.iter().map(|w| w.projection().unwrap_or(Projection { outs: vec![], txs: vec![], accounts: vec![], child_idx: vec![] })).collect();
			let live = self.flights.iter().filter(|f| !f.dead).count();
			let r = rng.below(100);
			let mut opwa: Option<(usize, String)> = None;
			let pending_unposted = self.flights.iter().any(|f| !f.dead && !f.posted && (f.locked || f.finalized) && !f.cancelled_payer && !f.cancelled_payee);
			if self.cfg.burst && !self.burst_done && self.step * 3 > self.cfg.steps && pending_unposted && rng.chance(1, 6) {
				self.op_burst(rng);
			} else if r < 14 {
				self.op_mine(rng);
			} else if r < 30 {
				self.op_refresh(rng);
			} else if r < 48 && live < self.cfg.max_in_flight {
				self.op_init(rng);
			} else if r < 88 {
				self.op_advance(rng);
			} else if r < 95 {
				self.op_cancel(rng);
			} else if r >= 93 && self.cfg.stale_coinbase && rng.chance(1, 3) {
				if rng.chance(1, 3) {
					self.op_coinbase_rerequest_other_account(rng);
				} else {
					self.op_stale_coinbase(rng);
				}
			} else if r >= 95 && self.cfg.hostile_invoice && rng.bool() {
				self.op_hostile_invoice(rng);
			} else if r < 97 && self.cfg.restarts {
				self.op_restart(rng);
			} else {
				self.op_refresh(rng);
			}
			// the account an owner operation ran under (for the cross-account clause): the last event names it
			if let Some(e) = self.events.last() {
				let op = e["op"].as_str().unwrap_or("");
				if matches!(op, "init_send" | "tx_lock_outputs" | "finalize_tx" | "process_invoice_tx" | "cancel_tx" | "refresh") {
					let wi = e["detail"]["wallet"].as_u64().or(e["detail"]["payer"].as_u64());
					if let Some(wi) = wi {
						opwa = Some((wi as usize, self.active[wi as usize].clone()));
					}
				}
			}
			self.after_step(opwa, &before);
			if self.cfg.secrets_every > 0 && self.step % self.cfg.secrets_every == 0 {
				self.judge_secrets();
			}
			let shape = (self.flights.iter().filter(|f| !f.dead).count(), self.flights.iter().filter(|f| f.locked && !f.dead).count(), self.flights.iter().filter(|f| f.finalized && !f.dead).count());
			self.distinct.insert(hash64(&("shape", shape, self.events.last().map(|e| e["op"].to_string()))));
		}
		if self.cfg.secrets_every > 0 {
			self.judge_secrets();
		}
	}
}
