#[macro_use]
extern crate lazy_static;
extern crate serde_derive;

mod gen;
mod hist;
mod util;
#[macro_use]
mod world;
mod props;

use util::Args;

#[global_allocator]
static GLOBAL: util::CountingAlloc = util::CountingAlloc;

fn main() {
	let args = Args::parse();
	util::install_panic_hook();
	world::init_chain_type();
	props::dispatch(&args);
}
