//! The world: a real grin_chain::Chain as node, a synchronous NodeClient over it,
//! real LMDB wallets, snapshots and projections.

use crate::util::{hash64, hex, Rng};
use chrono::Duration;
use grin_chain as chain;
use grin_chain::types::NoopAdapter;
use grin_chain::Chain;
use grin_core::consensus;
use grin_core::core::hash::Hashed;
use grin_core::core::transaction::Weighting;
use grin_core::core::{Block, BlockHeader, Committed, Output, Transaction, TxKernel};
use grin_core::global::{self, ChainTypes};
use grin_core::libtx::proof::ProofBuilder;
use grin_core::libtx::reward;
use grin_core::pow;
use grin_keychain::{ExtKeychain, Identifier, Keychain};
use grin_util::secp::key::SecretKey;
use grin_util::secp::pedersen;
use grin_util::{Mutex, ToHex, ZeroingString};
use grin_wallet_impls::{DefaultLCProvider, DefaultWalletImpl};
use grin_wallet_libwallet as libwallet;
use grin_wallet_libwallet::api_impl::{foreign, owner};
use grin_wallet_libwallet::{
	BlockFees, Context, InitTxArgs, IssueInvoiceTxArgs, NodeClient, NodeVersionInfo, OutputData,
	OutputStatus, Slate, TxLogEntry, TxLogEntryType, WalletBackend, WalletInfo, WalletInst,
};
use serde_json::{json, Value};
use std::collections::{BTreeMap, HashMap};
use std::path::Path;
use std::sync::atomic::{AtomicBool, Ordering};
use std::sync::Arc;
use uuid::Uuid;

pub type LC = DefaultLCProvider<'static, DirectNode, ExtKeychain>;
pub type WInst = Arc<Mutex<Box<dyn WalletInst<'static, LC, DirectNode, ExtKeychain>>>>;
pub type Backend = dyn WalletBackend<'static, DirectNode, ExtKeychain> + 'static;

static GLOBAL_SET: AtomicBool = AtomicBool::new(false);

/// Set chain type for this thread (and the global default once).
pub fn init_chain_type() {
	if !GLOBAL_SET.swap(true, Ordering::SeqCst) {
		global::init_global_chain_type(ChainTypes::AutomatedTesting);
	}
	global::set_local_chain_type(ChainTypes::AutomatedTesting);
}

pub fn copy_dir(src: &Path, dst: &Path) -> std::io::Result<()> {
	std::fs::create_dir_all(dst)?;
	for e in std::fs::read_dir(src)? {
		let e = e?;
		let p = e.path();
		let d = dst.join(e.file_name());
		if p.is_dir() {
			copy_dir(&p, &d)?;
		} else {
			if e.file_name() == "lock.mdb" {
				// lock file holds reader-table state of a live env; recreate fresh
				continue;
			}
			std::fs::copy(&p, &d)?;
		}
	}
	Ok(())
}

// ------------------------------------------------------------------ node

#[derive(Default)]
pub struct NodeState {
	pub pool: Vec<Transaction>,
	pub unreachable: bool,
	/// fail the call with this ordinal (1-based, counted from `calls`)
	pub fail_at: Option<u64>,
	pub calls: u64,
	/// max outputs returned per get_outputs_by_pmmr_index (0 = as asked)
	pub page: u64,
	pub call_log: Vec<String>,
	pub log_calls: bool,
	/// while set, node calls wait (a slow node); bounded
	pub hold: bool,
	/// number of calls that have started waiting on `hold`
	pub waiting: u64,
	pub posted: Vec<Transaction>,
}

#[derive(Clone)]
pub struct DirectNode {
	pub chain: Arc<Mutex<Option<Arc<Chain>>>>,
	pub st: Arc<Mutex<NodeState>>,
}

fn nerr(s: &str) -> libwallet::Error {
	libwallet::Error::ClientCallback(s.to_owned())
}

impl DirectNode {
	pub fn new(chain: Arc<Chain>) -> DirectNode {
		DirectNode {
			chain: Arc::new(Mutex::new(Some(chain))),
			st: Arc::new(Mutex::new(NodeState::default())),
		}
	}
	pub fn chain(&self) -> Arc<Chain> {
		self.chain.lock().as_ref().expect("chain open").clone()
	}
	fn gate(&self, what: &str) -> Result<(), libwallet::Error> {
		let mut waited = 0;
		while self.st.lock().hold && waited < 5000 {
			if waited == 0 {
				self.st.lock().waiting += 1;
			}
			std::thread::sleep(std::time::Duration::from_millis(1));
			waited += 1;
		}
		let mut st = self.st.lock();
		st.calls += 1;
		if st.log_calls {
			let c = st.calls;
			st.call_log.push(format!("{}:{}", c, what));
		}
		if st.unreachable {
			return Err(nerr("node unreachable (injected)"));
		}
		if let Some(n) = st.fail_at {
			if st.calls == n {
				st.fail_at = None;
				return Err(nerr("node call failed (injected)"));
			}
		}
		Ok(())
	}
	pub fn set_unreachable(&self, u: bool) {
		self.st.lock().unreachable = u;
	}
	/// make the k-th call from now fail once
	pub fn fail_kth_from_now(&self, k: u64) {
		let mut st = self.st.lock();
		st.fail_at = Some(st.calls + k);
	}
	pub fn clear_faults(&self) {
		let mut st = self.st.lock();
		st.fail_at = None;
		st.unreachable = false;
	}
	pub fn set_page(&self, p: u64) {
		self.st.lock().page = p;
	}
	pub fn pool_len(&self) -> usize {
		self.st.lock().pool.len()
	}

	/// Validate like a node would and add to the harness mempool.
	pub fn submit(&self, tx: &Transaction) -> Result<(), String> {
		let chain = self.chain();
		tx.validate(Weighting::AsTransaction)
			.map_err(|e| format!("tx invalid: {:?}", e))?;
		let mut st = self.st.lock();
		// double spend within pool / already known kernel
		for p in st.pool.iter() {
			if p.kernels()[0].excess == tx.kernels()[0].excess {
				return Err("duplicate kernel in pool".into());
			}
			for i in tx.inputs_committed() {
				if p.inputs_committed().contains(&i) {
					return Err("input already spent in pool".into());
				}
			}
		}
		// every input in UTXO or created by a pool tx
		let mut all_in_utxo = true;
		for i in tx.inputs_committed() {
			let in_utxo = chain.get_unspent(i).map_err(|e| format!("{:?}", e))?.is_some();
			if !in_utxo {
				all_in_utxo = false;
				let in_pool = st
					.pool
					.iter()
					.any(|p| p.outputs_committed().contains(&i));
				if !in_pool {
					return Err("input not in UTXO set nor pool".into());
				}
			}
		}
		if all_in_utxo {
			chain
				.validate_tx(tx)
				.map_err(|e| format!("chain.validate_tx: {:?}", e))?;
		}
		// outputs must not duplicate existing UTXO
		for o in tx.outputs_committed() {
			if chain.get_unspent(o).map_err(|e| format!("{:?}", e))?.is_some() {
				return Err("duplicate output commitment".into());
			}
		}
		st.pool.push(tx.clone());
		st.posted.push(tx.clone());
		Ok(())
	}
}

impl NodeClient for DirectNode {
	fn node_url(&self) -> &str {
		"direct"
	}
	fn set_node_url(&mut self, _node_url: &str) {}
	fn node_api_secret(&self) -> Option<String> {
		None
	}
	fn set_node_api_secret(&mut self, _s: Option<String>) {}
	fn post_tx(&self, tx: &Transaction, _fluff: bool) -> Result<(), libwallet::Error> {
		self.gate("post_tx")?;
		self.submit(tx).map_err(|e| nerr(&e))
	}
	fn get_version_info(&mut self) -> Option<NodeVersionInfo> {
		None
	}
	fn get_chain_tip(&self) -> Result<(u64, String), libwallet::Error> {
		self.gate("get_chain_tip")?;
		let h = self.chain().head().map_err(|e| nerr(&format!("{:?}", e)))?;
		Ok((h.height, h.last_block_h.to_hex()))
	}
	fn get_kernel(
		&mut self,
		excess: &pedersen::Commitment,
		min_height: Option<u64>,
		max_height: Option<u64>,
	) -> Result<Option<(TxKernel, u64, u64)>, libwallet::Error> {
		self.gate("get_kernel")?;
		self.chain()
			.get_kernel_height(excess, min_height, max_height)
			.map_err(|e| nerr(&format!("{:?}", e)))
	}
	fn get_outputs_from_node(
		&self,
		wallet_outputs: Vec<pedersen::Commitment>,
	) -> Result<HashMap<pedersen::Commitment, (String, u64, u64)>, libwallet::Error> {
		self.gate("get_outputs_from_node")?;
		let chain = self.chain();
		let mut res = HashMap::new();
		for c in wallet_outputs {
			if let Ok(Some(_)) = chain.get_unspent(c) {
				let h = chain
					.get_header_for_output(c)
					.map_err(|e| nerr(&format!("{:?}", e)))?
					.height;
				let pos = chain.get_output_pos(&c).unwrap_or(0);
				res.insert(c, (c.to_hex(), h, pos));
			}
		}
		Ok(res)
	}
	fn get_outputs_by_pmmr_index(
		&self,
		start_index: u64,
		end_index: Option<u64>,
		max_outputs: u64,
	) -> Result<
		(
			u64,
			u64,
			Vec<(pedersen::Commitment, pedersen::RangeProof, bool, u64, u64)>,
		),
		libwallet::Error,
	> {
		self.gate("get_outputs_by_pmmr_index")?;
		let chain = self.chain();
		let page = self.st.lock().page;
		let max = if page > 0 {
			std::cmp::min(page, max_outputs)
		} else {
			max_outputs
		};
		let start = std::cmp::max(start_index, 1);
		let o = chain
			.unspent_outputs_by_pmmr_index(start, max, end_index)
			.map_err(|e| nerr(&format!("{:?}", e)))?;
		let mut outs = vec![];
		for out in o.2.iter() {
			let c = out.commitment();
			let (h, pos) = match chain.get_unspent(c) {
				Ok(Some((_, p))) => (p.height, p.pos),
				_ => continue,
			};
			outs.push((c, out.proof, out.is_coinbase(), h, pos));
		}
		// (highest_index, last_retrieved_index, outputs)
		Ok((o.1, o.0, outs))
	}
	fn height_range_to_pmmr_indices(
		&self,
		start_height: u64,
		end_height: Option<u64>,
	) -> Result<(u64, u64), libwallet::Error> {
		self.gate("height_range_to_pmmr_indices")?;
		self.chain()
			.block_height_range_to_pmmr_indices(start_height, end_height)
			.map_err(|e| nerr(&format!("{:?}", e)))
	}
}

// ------------------------------------------------------------------ chain helpers

pub fn open_chain(dir: &str) -> Arc<Chain> {
	init_chain_type();
	let genesis = pow::mine_genesis_block().unwrap();
	let fresh = !Path::new(dir).join("chain_data").exists() && !Path::new(dir).exists();
	let c = Chain::init(
		dir.to_string(),
		Arc::new(NoopAdapter {}),
		genesis,
		pow::verify_size,
		false,
	)
	.expect("chain init");
	let _ = fresh;
	// make the directory re-openable: store a PIBD head for the test chain
	{
		let st = c.store();
		if st.pibd_head().is_err() || true {
			if let Ok(b) = st.batch() {
				let g = c.genesis();
				let _ = b.save_pibd_head(&chain::Tip::from_header(&g));
				let _ = b.commit();
			}
		}
	}
	Arc::new(c)
}

/// Build (not process) a block on `prev` with the given reward.
pub fn build_block(
	chain: &Chain,
	prev: &BlockHeader,
	txs: &[Transaction],
	reward_out: Output,
	reward_kern: TxKernel,
) -> Result<Block, String> {
	let diff_iter = chain::store::DifficultyIter::from(prev.hash(), chain.store());
	let next = consensus::next_difficulty(prev.height + 1, diff_iter);
	let mut b = Block::new(prev, txs, next.difficulty, (reward_out, reward_kern))
		.map_err(|e| format!("Block::new {:?}", e))?;
	b.header.timestamp = prev.timestamp + Duration::seconds(60);
	b.header.pow.secondary_scaling = next.secondary_scaling;
	chain
		.set_txhashset_roots(&mut b)
		.map_err(|e| format!("set_txhashset_roots {:?}", e))?;
	pow::pow_size(
		&mut b.header,
		next.difficulty,
		global::proofsize(),
		global::min_edge_bits(),
	)
	.map_err(|e| format!("pow {:?}", e))?;
	Ok(b)
}

pub fn tx_weight(tx: &Transaction) -> u64 {
	tx.weight()
}

// ------------------------------------------------------------------ wallets

pub const MNEMONICS: [&str; 4] = [
	"fat twenty mean degree forget shell check candy immense awful flame next during february bulb bike sun wink theory day kiwi embrace peace lunch",
	"affair pistol cancel crush garment candy ancient flag work market crush dry stand focus mutual weapon offer ceiling rival turn team spring where swift",
	"abandon abandon abandon abandon abandon abandon abandon abandon abandon abandon abandon abandon abandon abandon abandon abandon abandon abandon abandon abandon abandon abandon abandon art",
	"legal winner thank year wave sausage worth useful legal winner thank year wave sausage worth useful legal winner thank year wave sausage worth title",
];

pub struct Wallet {
	pub name: String,
	pub dir: String,
	pub inst: WInst,
	pub mask: Option<SecretKey>,
	pub mnemonic: String,
	pub password: String,
	pub masked: bool,
}

#[macro_export]
macro_rules! with_backend {
	($wallet:expr, $w:ident, $body:block) => {{
		let inst = $wallet.inst.clone();
		let mut w_lock = inst.lock();
		let lc = w_lock.lc_provider()?;
		let $w = lc.wallet_inst()?;
		$body
	}};
}

pub fn err_kind(e: &libwallet::Error) -> String {
	let d = format!("{:?}", e);
	let end = d
		.find(|c: char| !(c.is_alphanumeric() || c == '_'))
		.unwrap_or(d.len());
	d[..end].to_string()
}

impl Wallet {
	pub fn new_inst(node: DirectNode, dir: &str) -> WInst {
		let mut wallet = Box::new(DefaultWalletImpl::<'static, DirectNode>::new(node).unwrap())
			as Box<dyn WalletInst<'static, LC, DirectNode, ExtKeychain>>;
		let lc = wallet.lc_provider().unwrap();
		let _ = lc.set_top_level_directory(dir);
		Arc::new(Mutex::new(wallet))
	}

	pub fn create(
		node: DirectNode,
		dir: &str,
		name: &str,
		mnemonic: &str,
		password: &str,
		masked: bool,
	) -> Result<Wallet, libwallet::Error> {
		let inst = Wallet::new_inst(node, dir);
		let mask = {
			let mut w = inst.lock();
			let lc = w.lc_provider()?;
			lc.create_wallet(
				None,
				Some(ZeroingString::from(mnemonic)),
				32,
				ZeroingString::from(password),
				false,
			)?;
			lc.open_wallet(None, ZeroingString::from(password), masked, false)?
		};
		// a wallet created from a phrase is marked as needing a scan; harness wallets start on an
		// empty chain, so complete the init status exactly like a first successful refresh would.
		Ok(Wallet {
			name: name.to_string(),
			dir: dir.to_string(),
			inst,
			mask,
			mnemonic: mnemonic.to_string(),
			password: password.to_string(),
			masked,
		})
	}

	/// A brand-new wallet with a seed of its own (no recovery phrase supplied): its init status is
	/// "no scanning needed", so its first refresh only looks at the last blocks - the way an ordinary
	/// new user's wallet starts, unlike the harness's phrase-created wallets.
	pub fn create_new(node: DirectNode, dir: &str, name: &str, password: &str) -> Result<Wallet, libwallet::Error> {
		let inst = Wallet::new_inst(node, dir);
		let (mask, mnemonic) = {
			let mut w = inst.lock();
			let lc = w.lc_provider()?;
			lc.create_wallet(None, None, 32, ZeroingString::from(password), false)?;
			let m = lc.open_wallet(None, ZeroingString::from(password), false, false)?;
			let phrase = lc.get_mnemonic(None, ZeroingString::from(password))?;
			(m, phrase.to_string())
		};
		Ok(Wallet { name: name.to_string(), dir: dir.to_string(), inst, mask, mnemonic, password: password.to_string(), masked: false })
	}

	pub fn open(
		node: DirectNode,
		dir: &str,
		name: &str,
		mnemonic: &str,
		password: &str,
		masked: bool,
	) -> Result<Wallet, libwallet::Error> {
		let inst = Wallet::new_inst(node, dir);
		let mask = {
			let mut w = inst.lock();
			let lc = w.lc_provider()?;
			lc.open_wallet(None, ZeroingString::from(password), masked, false)?
		};
		Ok(Wallet {
			name: name.to_string(),
			dir: dir.to_string(),
			inst,
			mask,
			mnemonic: mnemonic.to_string(),
			password: password.to_string(),
			masked,
		})
	}

	pub fn m(&self) -> Option<&SecretKey> {
		self.mask.as_ref()
	}

	pub fn data_dir(&self) -> String {
		format!("{}/wallet_data", self.dir)
	}

	pub fn keychain(&self) -> ExtKeychain {
		let seed = grin_keychain::mnemonic::to_entropy(&self.mnemonic).unwrap();
		ExtKeychain::from_seed(&seed, global::is_testnet()).unwrap()
	}

	// ---- owner operations (single critical section)

	pub fn init_send(&self, args: InitTxArgs) -> Result<Slate, libwallet::Error> {
		with_backend!(self, w, { owner::init_send_tx(&mut **w, self.m(), args, false) })
	}
	pub fn lock_outputs(&self, slate: &Slate) -> Result<(), libwallet::Error> {
		with_backend!(self, w, { owner::tx_lock_outputs(&mut **w, self.m(), slate) })
	}
	pub fn finalize(&self, slate: &Slate) -> Result<Slate, libwallet::Error> {
		with_backend!(self, w, { owner::finalize_tx(&mut **w, self.m(), slate) })
	}
	pub fn issue_invoice(&self, args: IssueInvoiceTxArgs) -> Result<Slate, libwallet::Error> {
		with_backend!(self, w, { owner::issue_invoice_tx(&mut **w, self.m(), args, false) })
	}
	pub fn process_invoice(
		&self,
		slate: &Slate,
		args: InitTxArgs,
	) -> Result<Slate, libwallet::Error> {
		with_backend!(self, w, {
			owner::process_invoice_tx(&mut **w, self.m(), slate, args, false)
		})
	}
	pub fn get_stored_tx(
		&self,
		id: Option<u32>,
		slate_id: Option<&Uuid>,
	) -> Result<Option<Slate>, libwallet::Error> {
		with_backend!(self, w, { owner::get_stored_tx(&mut **w, id, slate_id) })
	}
	pub fn create_account(&self, label: &str) -> Result<Identifier, libwallet::Error> {
		with_backend!(self, w, { owner::create_account_path(&mut **w, self.m(), label) })
	}
	pub fn set_account(&self, label: &str) -> Result<(), libwallet::Error> {
		with_backend!(self, w, { owner::set_active_account(&mut **w, label) })
	}
	pub fn active_account(&self) -> Result<Identifier, libwallet::Error> {
		with_backend!(self, w, { Ok(w.parent_key_id()) })
	}
	pub fn context(&self, slate_id: &Uuid) -> Result<Context, libwallet::Error> {
		with_backend!(self, w, { w.get_private_context(self.m(), slate_id.as_bytes()) })
	}
	pub fn post(&self, tx: &Transaction) -> Result<(), libwallet::Error> {
		let client = with_backend!(self, w, {
			Ok::<DirectNode, libwallet::Error>(w.w2n_client().clone())
		})?;
		owner::post_tx(&client, tx, true)
	}

	// ---- foreign operations
	pub fn receive(&self, slate: &Slate, dest: Option<&str>) -> Result<Slate, libwallet::Error> {
		with_backend!(self, w, { foreign::receive_tx(&mut **w, self.m(), slate, dest, false) })
	}
	pub fn foreign_finalize(&self, slate: &Slate) -> Result<Slate, libwallet::Error> {
		with_backend!(self, w, { foreign::finalize_tx(&mut **w, self.m(), slate, false) })
	}
	pub fn build_coinbase(
		&self,
		fees: &BlockFees,
	) -> Result<libwallet::CbData, libwallet::Error> {
		with_backend!(self, w, { foreign::build_coinbase(&mut **w, self.m(), fees, false) })
	}

	// ---- multi-section operations
	pub fn refresh(&self) -> Result<bool, libwallet::Error> {
		owner::update_wallet_state(self.inst.clone(), self.m(), &None, false)
	}
	pub fn refresh_all(&self) -> Result<bool, libwallet::Error> {
		owner::update_wallet_state(self.inst.clone(), self.m(), &None, true)
	}
	pub fn cancel(
		&self,
		id: Option<u32>,
		slate_id: Option<Uuid>,
	) -> Result<(), libwallet::Error> {
		owner::cancel_tx(self.inst.clone(), self.m(), &None, id, slate_id)
	}
	pub fn info(&self, refresh: bool, minconf: u64) -> Result<(bool, WalletInfo), libwallet::Error> {
		owner::retrieve_summary_info(self.inst.clone(), self.m(), &None, refresh, minconf)
	}
	pub fn outputs(
		&self,
		include_spent: bool,
		refresh: bool,
	) -> Result<(bool, Vec<libwallet::OutputCommitMapping>), libwallet::Error> {
		owner::retrieve_outputs(self.inst.clone(), self.m(), &None, include_spent, refresh, None)
	}
	pub fn txs(&self, refresh: bool) -> Result<(bool, Vec<TxLogEntry>), libwallet::Error> {
		owner::retrieve_txs(self.inst.clone(), self.m(), &None, refresh, None, None, None)
	}
	pub fn scan(&self, start: Option<u64>, delete_unconfirmed: bool) -> Result<(), libwallet::Error> {
		owner::scan(self.inst.clone(), self.m(), start, delete_unconfirmed, &None)
	}

	// ---- raw views across all accounts
	pub fn all_outputs(&self) -> Result<Vec<OutputData>, libwallet::Error> {
		with_backend!(self, w, { Ok(w.iter().collect()) })
	}
	pub fn all_txs(&self) -> Result<Vec<TxLogEntry>, libwallet::Error> {
		with_backend!(self, w, { Ok(w.tx_log_iter().collect()) })
	}
	pub fn accounts(&self) -> Result<Vec<libwallet::AcctPathMapping>, libwallet::Error> {
		with_backend!(self, w, { Ok(w.acct_path_iter().collect()) })
	}
	pub fn child_index(&self, parent: &Identifier) -> Result<u32, libwallet::Error> {
		with_backend!(self, w, { w.current_child_index(parent) })
	}
	pub fn last_confirmed_height(&self) -> Result<u64, libwallet::Error> {
		with_backend!(self, w, { w.last_confirmed_height() })
	}

	/// Commitment of an output record (stored or recomputed from the harness's own keychain).
	pub fn commit_of(&self, o: &OutputData) -> pedersen::Commitment {
		match &o.commit {
			Some(c) => pedersen::Commitment::from_vec(grin_util::from_hex(c).unwrap()),
			None => self
				.keychain()
				.commit(o.value, &o.key_id, grin_keychain::SwitchCommitmentType::Regular)
				.unwrap(),
		}
	}

	/// Raw dump of every key/value in the wallet's LMDB file (copied first, so the live env is
	/// untouched). Used for frame conditions ("nothing changed").
	pub fn db_dump(&self, scratch: &str) -> Vec<(Vec<u8>, Vec<u8>)> {
		db_dump_dir(&self.data_dir(), scratch)
	}

	pub fn db_digest(&self, scratch: &str) -> u64 {
		hash64(&self.db_dump(scratch))
	}

	/// (relative name, content) of the stored-transaction files and top-level files
	pub fn files_list(&self) -> Vec<(String, Vec<u8>)> {
		let mut v: Vec<(String, Vec<u8>)> = vec![];
		let d = format!("{}/saved_txs", self.data_dir());
		if let Ok(rd) = std::fs::read_dir(&d) {
			for e in rd.flatten() {
				v.push((format!("saved_txs/{}", e.file_name().to_string_lossy()), std::fs::read(e.path()).unwrap_or_default()));
			}
		}
		if let Ok(rd) = std::fs::read_dir(self.data_dir()) {
			for e in rd.flatten() {
				if e.path().is_file() {
					v.push((e.file_name().to_string_lossy().to_string(), std::fs::read(e.path()).unwrap_or_default()));
				}
			}
		}
		v.sort();
		v
	}

	/// digest of the stored-transaction directory and seed file
	pub fn files_digest(&self) -> u64 {
		let mut v: Vec<(String, Vec<u8>)> = vec![];
		let d = format!("{}/saved_txs", self.data_dir());
		if let Ok(rd) = std::fs::read_dir(&d) {
			for e in rd.flatten() {
				v.push((
					e.file_name().to_string_lossy().to_string(),
					std::fs::read(e.path()).unwrap_or_default(),
				));
			}
		}
		v.sort();
		if let Ok(rd) = std::fs::read_dir(self.data_dir()) {
			let mut w: Vec<(String, Vec<u8>)> = vec![];
			for e in rd.flatten() {
				if e.path().is_file() {
					w.push((
						e.file_name().to_string_lossy().to_string(),
						std::fs::read(e.path()).unwrap_or_default(),
					));
				}
			}
			w.sort();
			v.extend(w);
		}
		hash64(&v)
	}
}

pub fn db_dump_dir(data_dir: &str, scratch: &str) -> Vec<(Vec<u8>, Vec<u8>)> {
	let src = format!("{}/db/lmdb/data.mdb", data_dir);
	let tmp = format!("{}/dbdump", scratch);
	let _ = std::fs::remove_dir_all(&tmp);
	std::fs::create_dir_all(format!("{}/lmdb", tmp)).unwrap();
	if std::fs::copy(&src, format!("{}/lmdb/data.mdb", tmp)).is_err() {
		return vec![];
	}
	let mut out = vec![];
	{
		let store = match grin_store::Store::new(&tmp, None, Some("db"), None) {
			Ok(s) => s,
			Err(_) => return vec![],
		};
		for p in 0u16..=255 {
			let pre = [p as u8];
			if let Ok(it) = store.iter(&pre, |k, v| Ok((k.to_vec(), v.to_vec()))) {
				for kv in it {
					out.push(kv);
				}
			}
		}
	}
	let _ = std::fs::remove_dir_all(&tmp);
	out
}

// ------------------------------------------------------------------ projection

#[derive(Clone, Debug, PartialEq, Eq, Hash, PartialOrd, Ord)]
pub struct POut {
	pub root: String,
	pub key_id: String,
	pub mmr: Option<u64>,
	pub commit: String,
	pub value: u64,
	pub status: String,
	pub height: u64,
	pub lock_height: u64,
	pub coinbase: bool,
	pub entry: Option<u32>,
}

#[derive(Clone, Debug, PartialEq, Eq, Hash, PartialOrd, Ord)]
pub struct PTx {
	pub parent: String,
	pub id: u32,
	pub slate: Option<String>,
	pub ty: String,
	pub confirmed: bool,
	pub credited: u64,
	pub debited: u64,
	pub fee: Option<u64>,
	pub num_in: usize,
	pub num_out: usize,
	pub ttl: Option<u64>,
	pub excess: Option<String>,
	pub has_proof: bool,
	pub proof_complete: bool,
	pub stored: Option<String>,
}

#[derive(Clone, Debug, PartialEq, Eq, Hash)]
pub struct Projection {
	pub outs: Vec<POut>,
	pub txs: Vec<PTx>,
	pub accounts: Vec<(String, String)>,
	pub child_idx: Vec<(String, u32)>,
}

pub fn status_str(s: &OutputStatus) -> &'static str {
	match s {
		OutputStatus::Unconfirmed => "Unconfirmed",
		OutputStatus::Unspent => "Unspent",
		OutputStatus::Locked => "Locked",
		OutputStatus::Spent => "Spent",
		OutputStatus::Reverted => "Reverted",
	}
}

pub fn type_str(t: &TxLogEntryType) -> &'static str {
	match t {
		TxLogEntryType::ConfirmedCoinbase => "ConfirmedCoinbase",
		TxLogEntryType::TxReceived => "TxReceived",
		TxLogEntryType::TxSent => "TxSent",
		TxLogEntryType::TxReceivedCancelled => "TxReceivedCancelled",
		TxLogEntryType::TxSentCancelled => "TxSentCancelled",
		TxLogEntryType::TxReverted => "TxReverted",
	}
}

pub fn idstr(i: &Identifier) -> String {
	i.to_hex()
}

impl Wallet {
	pub fn pout(&self, o: &OutputData) -> POut {
		POut {
			root: idstr(&o.root_key_id),
			key_id: idstr(&o.key_id),
			mmr: o.mmr_index,
			commit: self.commit_of(o).to_hex(),
			value: o.value,
			status: status_str(&o.status).to_string(),
			height: o.height,
			lock_height: o.lock_height,
			coinbase: o.is_coinbase,
			entry: o.tx_log_entry,
		}
	}

	pub fn projection(&self) -> Result<Projection, libwallet::Error> {
		let mut outs: Vec<POut> = self.all_outputs()?.iter().map(|o| self.pout(o)).collect();
		outs.sort();
		let mut txs: Vec<PTx> = self.all_txs()?.iter().map(ptx).collect();
		txs.sort();
		let accts = self.accounts()?;
		let mut accounts: Vec<(String, String)> = accts
			.iter()
			.map(|a| (a.label.clone(), idstr(&a.path)))
			.collect();
		accounts.sort();
		let mut child_idx = vec![];
		for a in accts.iter() {
			child_idx.push((idstr(&a.path), self.child_index(&a.path)?));
		}
		child_idx.sort();
		Ok(Projection {
			outs,
			txs,
			accounts,
			child_idx,
		})
	}
}

pub fn ptx(t: &TxLogEntry) -> PTx {
	PTx {
		parent: idstr(&t.parent_key_id),
		id: t.id,
		slate: t.tx_slate_id.map(|u| u.to_string()),
		ty: type_str(&t.tx_type).to_string(),
		confirmed: t.confirmed,
		credited: t.amount_credited,
		debited: t.amount_debited,
		fee: t.fee.map(|f| f.fee()),
		num_in: t.num_inputs,
		num_out: t.num_outputs,
		ttl: t.ttl_cutoff_height,
		excess: t.kernel_excess.map(|e| e.to_hex()),
		has_proof: t.payment_proof.is_some(),
		proof_complete: t
			.payment_proof
			.as_ref()
			.map(|p| p.receiver_signature.is_some() && p.sender_signature.is_some())
			.unwrap_or(false),
		stored: t.stored_tx.clone(),
	}
}

impl Projection {
	pub fn to_json(&self) -> Value {
		json!({
			"outs": self.outs.iter().map(|o| json!({
				"root": o.root, "key": o.key_id, "mmr": o.mmr, "commit": o.commit[..16].to_string(), "value": o.value,
				"status": o.status, "height": o.height, "lock": o.lock_height, "cb": o.coinbase, "entry": o.entry
			})).collect::<Vec<_>>(),
			"txs": self.txs.iter().map(|t| json!({
				"parent": t.parent, "id": t.id, "slate": t.slate, "type": t.ty, "confirmed": t.confirmed,
				"credited": t.credited, "debited": t.debited, "fee": t.fee, "nin": t.num_in, "nout": t.num_out,
				"ttl": t.ttl, "excess": t.excess.as_ref().map(|e| e[..16].to_string()), "proof": t.has_proof
			})).collect::<Vec<_>>(),
			"child_idx": self.child_idx,
		})
	}
	pub fn digest(&self) -> u64 {
		hash64(self)
	}
	/// Compact human diff
	pub fn diff(&self, other: &Projection) -> Vec<String> {
		let mut d = vec![];
		let a: BTreeMap<(String, Option<u64>), &POut> = self
			.outs
			.iter()
			.map(|o| ((o.key_id.clone(), o.mmr), o))
			.collect();
		let b: BTreeMap<(String, Option<u64>), &POut> = other
			.outs
			.iter()
			.map(|o| ((o.key_id.clone(), o.mmr), o))
			.collect();
		for (k, o) in a.iter() {
			match b.get(k) {
				None => d.push(format!("output {} {} {} removed", &k.0, o.status, o.value)),
				Some(p) => {
					if p != o {
						d.push(format!(
							"output {} changed: {} {} h{} e{:?} -> {} {} h{} e{:?}",
							&k.0, o.status, o.value, o.height, o.entry, p.status, p.value, p.height, p.entry
						))
					}
				}
			}
		}
		for (k, o) in b.iter() {
			if !a.contains_key(k) {
				d.push(format!("output {} {} {} added", &k.0, o.status, o.value));
			}
		}
		let ta: BTreeMap<(String, u32), &PTx> =
			self.txs.iter().map(|t| ((t.parent.clone(), t.id), t)).collect();
		let tb: BTreeMap<(String, u32), &PTx> =
			other.txs.iter().map(|t| ((t.parent.clone(), t.id), t)).collect();
		for (k, t) in ta.iter() {
			match tb.get(k) {
				None => d.push(format!("entry {:?} {} removed", k, t.ty)),
				Some(u) => {
					if u != t {
						d.push(format!("entry {:?} changed: {:?} -> {:?}", k, t, u))
					}
				}
			}
		}
		for (k, t) in tb.iter() {
			if !ta.contains_key(k) {
				d.push(format!("entry {:?} {} added", k, t.ty));
			}
		}
		if self.child_idx != other.child_idx {
			d.push(format!("child_idx {:?} -> {:?}", self.child_idx, other.child_idx));
		}
		if self.accounts != other.accounts {
			d.push(format!("accounts {:?} -> {:?}", self.accounts, other.accounts));
		}
		d
	}
}

// ------------------------------------------------------------------ world

pub struct World {
	pub dir: String,
	pub node: DirectNode,
	pub wallets: Vec<Wallet>,
	pub miner: ExtKeychain,
	pub miner_next: u32,
}

pub struct WalletSpec {
	pub name: String,
	pub mnemonic_idx: usize,
	pub masked: bool,
	pub password: String,
}

impl World {
	pub fn chain(&self) -> Arc<Chain> {
		self.node.chain()
	}

	/// Fresh world: chain + wallets created from known phrases.
	pub fn create(dir: &str, specs: &[WalletSpec]) -> World {
		init_chain_type();
		let _ = std::fs::remove_dir_all(dir);
		std::fs::create_dir_all(dir).unwrap();
		let chain = open_chain(&format!("{}/chain", dir));
		let node = DirectNode::new(chain);
		let mut wallets = vec![];
		for s in specs {
			let wdir = format!("{}/{}", dir, s.name);
			let w = Wallet::create(
				node.clone(),
				&wdir,
				&s.name,
				MNEMONICS[s.mnemonic_idx],
				&s.password,
				s.masked,
			)
			.expect("create wallet");
			wallets.push(w);
		}
		let miner = ExtKeychain::from_seed(&[7u8; 32], true).unwrap();
		World {
			dir: dir.to_string(),
			node,
			wallets,
			miner,
			miner_next: 0,
		}
	}

	pub fn two(dir: &str) -> World {
		World::create(
			dir,
			&[
				WalletSpec {
					name: "w0".into(),
					mnemonic_idx: 0,
					masked: false,
					password: "".into(),
				},
				WalletSpec {
					name: "w1".into(),
					mnemonic_idx: 1,
					masked: false,
					password: "".into(),
				},
			],
		)
	}

	/// Close every LMDB environment (wallets and chain).
	pub fn close(&mut self) -> Vec<(String, String, String, String, bool)> {
		let specs: Vec<_> = self
			.wallets
			.iter()
			.map(|w| {
				(
					w.name.clone(),
					w.dir.clone(),
					w.mnemonic.clone(),
					w.password.clone(),
					w.masked,
				)
			})
			.collect();
		self.wallets.clear();
		*self.node.chain.lock() = None;
		specs
	}

	/// Reopen chain and wallets after `close` (or in a fresh process).
	pub fn reopen(&mut self, specs: &[(String, String, String, String, bool)]) -> Result<(), libwallet::Error> {
		let chain = open_chain(&format!("{}/chain", self.dir));
		*self.node.chain.lock() = Some(chain);
		for (name, dir, mn, pw, masked) in specs {
			let w = Wallet::open(self.node.clone(), dir, name, mn, pw, *masked)?;
			self.wallets.push(w);
		}
		Ok(())
	}

	pub fn restart_wallet(&mut self, i: usize) -> Result<(), libwallet::Error> {
		let (name, dir, mn, pw, masked, acct) = {
			let w = &self.wallets[i];
			let acct = w
				.accounts()?
				.into_iter()
				.find(|a| Some(&a.path) == w.active_account().ok().as_ref())
				.map(|a| a.label);
			(
				w.name.clone(),
				w.dir.clone(),
				w.mnemonic.clone(),
				w.password.clone(),
				w.masked,
				acct,
			)
		};
		// drop the old instance first (closes its LMDB env)
		let placeholder = Wallet {
			name: name.clone(),
			dir: dir.clone(),
			inst: Wallet::new_inst(self.node.clone(), &dir),
			mask: None,
			mnemonic: mn.clone(),
			password: pw.clone(),
			masked,
		};
		let old = std::mem::replace(&mut self.wallets[i], placeholder);
		drop(old);
		let w = Wallet::open(self.node.clone(), &dir, &name, &mn, &pw, masked)?;
		if let Some(a) = acct {
			let _ = w.set_account(&a);
		}
		self.wallets[i] = w;
		Ok(())
	}

	/// Copy the closed world directory.
	pub fn snapshot_to(&mut self, dst: &str) {
		let specs = self.close();
		let _ = std::fs::remove_dir_all(dst);
		copy_dir(Path::new(&self.dir), Path::new(dst)).expect("snapshot copy");
		self.reopen(&specs).expect("reopen after snapshot");
	}

	pub fn open_existing(dir: &str, specs: &[(String, usize, bool, String)]) -> Result<World, libwallet::Error> {
		init_chain_type();
		let chain = open_chain(&format!("{}/chain", dir));
		let node = DirectNode::new(chain);
		let mut wallets = vec![];
		for (name, mi, masked, pw) in specs {
			let wdir = format!("{}/{}", dir, name);
			wallets.push(Wallet::open(
				node.clone(),
				&wdir,
				name,
				MNEMONICS[*mi],
				pw,
				*masked,
			)?);
		}
		Ok(World {
			dir: dir.to_string(),
			node,
			wallets,
			miner: ExtKeychain::from_seed(&[7u8; 32], true).unwrap(),
			miner_next: 1_000_000,
		})
	}

	pub fn height(&self) -> u64 {
		self.chain().head().unwrap().height
	}

	/// reward (output, kernel) owned by nobody's wallet
	pub fn neutral_reward(&mut self, fees: u64, salt: u32) -> (Output, TxKernel) {
		let key_id = ExtKeychain::derive_key_id(3, 9, salt, self.miner_next, 0);
		self.miner_next += 1;
		reward::output(
			&self.miner,
			&ProofBuilder::new(&self.miner),
			&key_id,
			fees,
			false,
		)
		.unwrap()
	}

	/// Select a conflict-free subset of the pool that fits a block and whose inputs are all in the
	/// current UTXO set (children wait for the next block).
	pub fn take_pool(&self, max_txs: usize) -> Vec<Transaction> {
		let chain = self.chain();
		let mut st = self.node.st.lock();
		let mut chosen: Vec<Transaction> = vec![];
		let mut rest: Vec<Transaction> = vec![];
		let cb_weight = 21 + 3;
		let mut weight = cb_weight;
		let maxw = global::max_block_weight();
		for tx in st.pool.drain(..) {
			let ok_inputs = tx
				.inputs_committed()
				.iter()
				.all(|c| matches!(chain.get_unspent(*c), Ok(Some(_))));
			let w = tx.weight();
			let still_valid = ok_inputs && chain.validate_tx(&tx).is_ok();
			if still_valid && chosen.len() < max_txs && weight + w <= maxw {
				weight += w;
				chosen.push(tx);
			} else if ok_inputs || tx.inputs_committed().iter().all(|c| {
				matches!(chain.get_unspent(*c), Ok(Some(_)))
					|| rest.iter().chain(chosen.iter()).any(|p| p.outputs_committed().contains(c))
			}) {
				rest.push(tx);
			}
			// else: dropped (inputs vanished: conflicting tx was mined)
		}
		st.pool = rest;
		chosen
	}

	/// Mine one block on the head with pool transactions; reward to wallet `to` (or neutral).
	pub fn mine(&mut self, to: Option<usize>, include_pool: bool) -> Result<Vec<Transaction>, String> {
		let txs = if include_pool {
			self.take_pool(3)
		} else {
			vec![]
		};
		let chain = self.chain();
		let prev = chain.head_header().map_err(|e| format!("{:?}", e))?;
		let fees: u64 = txs.iter().map(|t| t.fee()).sum();
		let (out, kern) = match to {
			Some(i) => {
				let bf = BlockFees {
					fees,
					key_id: None,
					height: prev.height + 1,
				};
				let cb = self.wallets[i]
					.build_coinbase(&bf)
					.map_err(|e| format!("build_coinbase: {:?}", e))?;
				(cb.output, cb.kernel)
			}
			None => self.neutral_reward(fees, 0),
		};
		let b = match build_block(&chain, &prev, &txs, out, kern) {
			Ok(b) => b,
			Err(e) => {
				// put txs back
				let mut st = self.node.st.lock();
				for t in txs {
					st.pool.push(t);
				}
				return Err(e);
			}
		};
		chain
			.process_block(b, chain::Options::MINE)
			.map_err(|e| format!("process_block {:?}", e))?;
		Ok(txs)
	}

	pub fn mine_n(&mut self, to: Option<usize>, n: usize) -> Result<(), String> {
		for _ in 0..n {
			self.mine(to, true)?;
		}
		Ok(())
	}

	/// Mine a specific set of transactions on the head (no pool).
	pub fn mine_txs(&mut self, to: Option<usize>, txs: &[Transaction]) -> Result<(), String> {
		let chain = self.chain();
		let prev = chain.head_header().map_err(|e| format!("{:?}", e))?;
		let fees: u64 = txs.iter().map(|t| t.fee()).sum();
		let (out, kern) = match to {
			Some(i) => {
				let bf = BlockFees {
					fees,
					key_id: None,
					height: prev.height + 1,
				};
				let cb = self.wallets[i]
					.build_coinbase(&bf)
					.map_err(|e| format!("build_coinbase: {:?}", e))?;
				(cb.output, cb.kernel)
			}
			None => self.neutral_reward(fees, 0),
		};
		let b = build_block(&chain, &prev, txs, out, kern)?;
		chain
			.process_block(b, chain::Options::MINE)
			.map_err(|e| format!("process_block {:?}", e))?;
		// remove mined from pool
		let mut st = self.node.st.lock();
		st.pool
			.retain(|p| !txs.iter().any(|t| t.kernels()[0].excess == p.kernels()[0].excess));
		Ok(())
	}

	/// Build a fork: `len` neutral blocks on top of the header at `fork_height`, with `txs` in the
	/// first one. Blocks are returned, not processed.
	pub fn build_fork(
		&mut self,
		fork_height: u64,
		len: usize,
		txs_first: &[Transaction],
		salt: u32,
	) -> Result<Vec<Block>, String> {
		let chain = self.chain();
		let mut prev = chain
			.get_header_by_height(fork_height)
			.map_err(|e| format!("{:?}", e))?;
		let mut blocks = vec![];
		for i in 0..len {
			let txs: &[Transaction] = if i == 0 { txs_first } else { &[] };
			let fees: u64 = txs.iter().map(|t| t.fee()).sum();
			let (out, kern) = self.neutral_reward(fees, salt);
			let b = build_block(&chain, &prev, txs, out, kern)?;
			// the block must be known to the chain before the next can be built on it
			chain
				.process_block(b.clone(), chain::Options::MINE)
				.map_err(|e| format!("process fork block {:?}", e))?;
			prev = b.header.clone();
			blocks.push(b);
		}
		Ok(blocks)
	}

	pub fn is_unspent(&self, c: &pedersen::Commitment) -> bool {
		matches!(self.chain().get_unspent(*c), Ok(Some(_)))
	}

	pub fn kernel_on_chain(&self, e: &pedersen::Commitment) -> bool {
		matches!(self.chain().get_kernel_height(e, None, None), Ok(Some(_)))
	}
}

/// Random InitTxArgs for API-level workloads
pub fn rand_send_args(rng: &mut Rng, amount: u64, minconf: u64) -> InitTxArgs {
	InitTxArgs {
		src_acct_name: None,
		amount,
		minimum_confirmations: minconf,
		max_outputs: 500,
		num_change_outputs: *rng.pick(&[1u32, 1, 1, 2, 3]),
		selection_strategy_is_use_all: rng.bool(),
		..Default::default()
	}
}

pub fn tx_hex(tx: &Transaction) -> String {
	hex(&grin_core::ser::ser_vec(tx, grin_core::ser::ProtocolVersion(1)).unwrap())
}
