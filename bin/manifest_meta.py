HOOK_COMMITS = ["2b595be", "f7394ca"]
NOT_APPLICABLE = {}
META = {
 "C19": {
  "text": "Runtime monitoring with a reference-model oracle: every owner::retrieve_txs answer over generated logs/queries is compared online with a filter written from the RetrieveTxQueryArgs documentation (membership, account, order, limit/truncation, look-ups). Exhaustive over single fields and field pairs for one log per shard, sampled beyond. This is exploration: it shows the property on the >10^5 (log, query) pairs executed, not for all inputs.",
  "design_ref": "DESIGN.md section 5 C19",
  "note": "Trusts the harness's reading of the field documentation (don't-care sets listed in the evidence assumptions) and LMDB round-tripping of the synthetic entries.",
  "technique": "runtime monitoring: reference-filter oracle over real retrieve_txs executions on generated logs/queries",
 },
 "C01": {
  "text": "Runtime monitoring of the real selection and initiation code: an invariant oracle (independent spendability predicate, exact u128 conservation, minimum fee, unique change paths, no panic, bounded steps, nothing persisted on refusal) evaluated on every execution of an exhaustive small scope plus several 10^5 sampled wallets/parameter draws (hook H1, in-memory backend) and on API-level sends, estimates, late-locked sends and invoice payments against a real LMDB wallet and chain.",
  "design_ref": "DESIGN.md section 5 C01",
  "note": "Trusts grin_core::libtx::tx_fee as the network minimum and the harness's own spendability predicate; workload B covers tens (quick) to hundreds (thorough) of API calls, the bulk of the input space is covered at the selection-function boundary.",
  "technique": "runtime monitoring: conservation/eligibility invariant oracle over real selection executions (exhaustive small scope + sampled), API-level replay with LMDB state diff",
 },
}
