HOOK_COMMITS = ['2b595be', 'f7394ca']
NOT_APPLICABLE = {}
META = {
 "C19": {
  "text": "Runtime monitoring with a reference-model oracle: every owner::retrieve_txs answer over generated logs/queries is compared online with a filter written from the RetrieveTxQueryArgs documentation (membership, account, order, limit/truncation, look-ups). Exhaustive over single fields and field pairs for one log per shard, sampled beyond. This is exploration: it shows the property on the >10^5 (log, query) pairs executed, not for all inputs. Generated logs carry stored transactions; get_stored_tx by log id must return the active account's.",
  "design_ref": "DESIGN.md section 5 C19",
  "note": "Trusts the harness's reading of the field documentation (don't-care sets listed in the evidence assumptions) and LMDB round-tripping of the synthetic entries.",
  "technique": "runtime monitoring: reference-filter oracle over real retrieve_txs executions on generated logs/queries",
 },
 "C01": {
  "text": "Runtime monitoring of the real selection and initiation code: an invariant oracle (independent spendability predicate, exact u128 conservation, minimum fee, unique change paths, no panic, bounded steps, nothing persisted on refusal) evaluated on every execution of an exhaustive small scope plus several 10^5 sampled wallets/parameter draws (hook H1, in-memory backend) and on API-level sends, estimates, late-locked sends and invoice payments against a real LMDB wallet and chain. Source accounts other than the active one (src_acct_name) and, for late-locked sends, an intervening send that reserves coins between initiation and finalization are part of the API-level workload; a refused late-locked finalization of an honest reply must leave nothing newly reserved. Workload A includes change-output counts whose minimum fee exceeds the kernel fee field (the send must be refused, not crash); workload B judges the weight of every transaction the wallet agrees to build against the maximum and drives estimate / late-lock with such counts in a wallet that can afford the fee.",
  "design_ref": "DESIGN.md section 5 C01",
  "note": "Trusts grin_core::libtx::tx_fee as the network minimum and the harness's own spendability predicate; workload B covers tens (quick) to hundreds (thorough) of API calls, the bulk of the input space is covered at the selection-function boundary.",
  "technique": "runtime monitoring: conservation/eligibility invariant oracle over real selection executions (exhaustive small scope + sampled), API-level replay with LMDB state diff",
 },
 "C08": {
  "text": "Runtime monitoring with a differential oracle: every generated well-typed slate is pushed through all encoders/decoders of the real code and the decoded native values are compared field by field (original vs. decoded, path vs. path, and back at the SlateV4 level), several 10^4 slates x ~10 paths per run, with per-field hit counters proving that every optional field and boundary value was exercised. Stored-record codecs include encrypted Slatepack structures with 0-3 recipients kept in the encrypted metadata and an optional sender. Also judged: finalized slates of real two-wallet payments with plain, height-locked and NRD kernels (the kernel the decoder rebuilds must be the encoded transaction's), fee fields that are non-zero multiples of 2^40, and - under the test chain type's limits - slates close to the maximum weight, whose slatepacks must be readable.",
  "design_ref": "DESIGN.md section 5 C08",
  "note": "Trusts the harness's field-by-field equality (kernel of the embedded transaction excluded by design) and its notion of well-typed (documented bounds in the evidence assumptions).",
  "technique": "runtime monitoring: field-by-field equality oracle over real encode/decode executions of structurally generated slates through every encoding path; AddressSanitizer pass (thorough)",
 },
 "C10": {
  "text": "Runtime monitoring of the real packer/armor/age code: recipient and non-recipient decryption, cleartext search over every encoded form, and exhaustive-per-position (first messages) plus sampled edit campaigns with an independent checksum recomputation to recognise inherent 32-bit collisions; also through the owner API on real wallets. Through the owner API the recipient's derivation index is also given among several others in random order.",
  "design_ref": "DESIGN.md section 5 C10",
  "note": "Confidentiality is judged by searching known encodings of the slate and sender (raw, hex, bech32, JSON) in every form; a leak in another encoding would be missed. Wrong keys are sampled.",
  "technique": "runtime monitoring: decrypt/refuse/cleartext/tamper oracles over real slatepack executions with exhaustive single edits of the first message per shard; AddressSanitizer pass (thorough)",
 },
 "C09": {
  "text": "Runtime monitoring of every decoder entry point under hostile input: unwinding is caught and attributed to its panic site, allocation and CPU are metered per input, aborts are attributed through a per-input journal, and the wallet's raw LMDB content and files are diffed after rejected inputs on wallet-facing entries. Several 10^5 (quick) to 10^6 (thorough) inputs per run, exhaustive over single positions of the first valid encodings. The foreign receive_tx requests vary the destination parameter; the address corpus includes base32-padded strings; owner calls whose string parameters are decoded by hand are sent through the encrypted channel. The CPU allowance per input is 5 s plus 0.5 ms per input byte.",
  "design_ref": "DESIGN.md section 5 C09",
  "note": "No coverage-guided fuzzer decides the verdict (technique family); inputs are structure-aware. Thorough tier: the quick workload again under AddressSanitizer (Rust + C), a deterministic 3 % sample under valgrind memcheck (memory errors judged everywhere, uses of uninitialised values only in wallet code: the secp256k1 binding's MaybeUninit out-parameters are reported inside the C library for malformed keys/proofs and are not judged), and the pure-Rust decoder subset under Miri (/verif/miri).",
  "technique": "runtime monitoring: panic/allocation/CPU/state-diff monitors around real decoder executions on structure-aware hostile inputs; AddressSanitizer, valgrind memcheck and Miri passes (thorough)",
 },
 "C03": {
  "text": "Runtime monitoring of the real wallets under generated interleaved histories (several thousand steps per quick run, tens of thousands thorough) with an exclusivity/idempotence monitor evaluated after every step. Repeats include the reserve step delivered again after the transaction was cancelled. Repeats that name another account of the same wallet are judged too (receive into another account; an already paid self-issued invoice processed and reserved from another account), and the histories call tx_lock_outputs on late-locked sends as the command line does. Self-paid invoices are also finalized while their paying half is not (or no longer) reserved.",
  "design_ref": "DESIGN.md section 5 C03",
  "note": "Histories are sampled; the monitor reads wallet state through the backend iterators after each step.",
  "technique": "runtime monitoring: invariant monitor (reservation exclusivity, idempotent repeats) over generated interleaved histories on real LMDB wallets and chain",
 },
 "C04": {
  "text": "Runtime monitoring: at every validated refresh in generated histories the wallet's books are compared with the real chain's UTXO set, heights and coinbase flags (membership, balance partition for four confirmation settings, ledger equality, cross-account frame condition). Once per history the chain grows by more than 50 blocks while transactions are pending. Histories include self-paid invoices, coinbases re-requested for a candidate's key while another account is active (a record must carry a key of the account it is kept under), and a second job (c04m) runs a new-seed wallet whose coinbases go to a non-active account and judges each account after its own refresh.",
  "design_ref": "DESIGN.md section 5 C04",
  "note": "Chain truth is read from grin_chain directly; histories that the statement excludes (cancel after broadcast, reorganisation) are not generated. Known open finding: an unconfirmed output reserved with minimum_confirmations = 0 loses the link to its creating transaction (known_findings.json).",
  "technique": "runtime monitoring: chain-truth oracle evaluated at every successful refresh over generated histories",
 },
 "C15": {
  "text": "Runtime monitoring: a path -> output map maintained over every output record ever observed in generated histories (with restarts, cancels after broadcast, node outages), plus restore-from-seed runs checking that the next derivation index lies beyond every path on chain. The histories include coinbase requests that name the key of an existing coinbase record (a never-mined candidate, or an already confirmed one). Coinbase requests also name candidates that are already mined but not yet seen by the wallet (M-keypath consults the chain for the exception); restores are repeated after a first scan that a node fault interrupted right after the UTXO listing.",
  "design_ref": "DESIGN.md section 5 C15",
  "note": "Crash points are covered by the C06 runs, which feed the same monitor (see C06).",
  "technique": "runtime monitoring: key-path uniqueness monitor over generated histories and restores",
 },
 "C06": {
  "text": "Fault enumeration by runtime injection: every persistence-call boundary of every operation of five scenarios is hit with a process kill and with two failing-write errnos (plus torn stored-tx writes), and a recovery oracle is evaluated on the reopened directory. The interposer observes the calls below the process, so writes issued by the statically linked LMDB C code are included and a new write added by a change is enumerated without a new hook. A partially written stored-transaction file answered with 'no stored transaction' counts as silent loss. The scenarios include a scan that drops a pending multi-input send, interrupted at every persistence call.",
  "design_ref": "DESIGN.md section 5 C06, section 4.2",
  "note": "Trusts the interposer to see every persistence call (verified against the observed sequences recorded in the evidence) and the process-death crash model.",
  "technique": "runtime monitoring with fault injection: syscall-level crash/failing-write enumeration + recovery invariant oracle",
 },
 "C12": {
  "text": "Runtime monitoring: nonce/excess freshness and cleartext-secret monitors ride on generated multi-slate histories of real wallets (raw on-disk bytes and every emitted message searched after every 40 steps); seed-file password semantics are checked against an independent decryptor; password change and phrase recovery are interrupted at every persistence call by the syscall interposer. M-secrets also has a public-data clause: no emitted slate's offset (or the change of the offset made by the wallet) may equal plus or minus a participant's blinding key, checked as (+/-)x*G == public_blind_excess; the workload repeats protocol steps, sends invoices that reuse the slate id of one of the victim's pending sends or of an invoice the victim issued itself, and pays its own invoices. The seed-file job also tries the right password followed by NUL bytes. The public-data clause also covers the step across finalization: the offset of the finalized slate minus the offset of the slate handed in, against every public excess seen in the flight's slates.",
  "design_ref": "DESIGN.md section 5 C12",
  "note": "Known open findings: the stored context keeps initial_sec_key/initial_sec_nonce unmasked; the seed file also opens with its password followed by NUL bytes (HMAC key padding) - see known_findings.json.",
  "technique": "runtime monitoring: byte-search and nonce-uniqueness monitors over histories + fault-injected seed-file operations with an independent decryptor",
 },
 "C17": {
  "text": "Runtime monitoring of the real TTL checks: a directed sweep of cutoffs around the wallet's observed height at every protocol step and role, and of refreshes around the cutoff with other pending transactions present, judged by an expiry oracle stated as implications. The acting wallet's own ttl_blocks wish for its reply is varied (it must not matter for the incoming slate's expiry); roles include a self-send inside one account, and a refresh that fails while the node is reachable is itself judged. Steps also arrive while another account of the acting wallet is active than the one whose refresh observed the height; huge ttl_blocks values; refreshes in which an older TTL send is confirmed by its kernel while a later one has expired.",
  "design_ref": "DESIGN.md section 5 C17",
  "note": "Directed boundary sweep (hundreds of cases), not random histories; other pending transactions are of the same wallet and role.",
  "technique": "runtime monitoring: boundary sweep with an expiry oracle over real receive/finalize/invoice/refresh executions",
 },
 "C05": {
  "text": "Runtime monitoring with a before/after oracle on real wallets: every pending kind at every stage is cancelled in the presence of other reservations and the complete observable state is compared with the snapshot taken just before the transaction existed. Every third case places pending entries with the same per-account log ids into the wallet's other account (the compared view covers every account); refusal cases include a transaction that is already mined but not yet seen by the wallet (with and without change output); every fourth case runs on coins that were restored by a scan. Self-sends and re-received slates are cancelled by slate id (one id standing for several entries); a cancel request naming no transaction is a refusal case.",
  "design_ref": "DESIGN.md section 5 C05",
  "note": "Directed enumeration of kinds/stages/addressing (hundreds of cases), parameters drawn per case. Known open finding: same root cause as C04's (known_findings.json).",
  "technique": "runtime monitoring: exact-rollback oracle (state snapshot before create vs after cancel) over enumerated pending-transaction kinds",
 },
 "C02": {
  "text": "Runtime monitoring with a mutation campaign on the reply slate: every finalization that succeeds is judged by an independent exactness oracle (validation, recomputed inputs/change from the seed, agreed fee, stored-transaction bytes, acceptance by a real chain), every refusal by a frame condition and cancellability. Per shard also: cancel_tx followed by finalize_tx of the honest reply (with and without change output) must be refused or leave every input reserved. Attacker-level replies include one that splits the recipient's output into two balanced outputs. Thorough tier repeats the quick workload under AddressSanitizer (Rust and C code). Per shard also: a late-locked send in the command line's call order (tx_lock_outputs before the reply, finalize retried once), and attacker replies whose state field is switched to Invoice2 after the recipient planted a receipt with the send's id.",
  "design_ref": "DESIGN.md section 5 C02",
  "note": "Alterations are a fixed catalogue plus attacker-level re-signed replies; the honest counterparty's outputs are taken from its real reply.",
  "technique": "runtime monitoring: 'success implies exact' oracle over finalizations of systematically altered replies, with a real chain as acceptance oracle; AddressSanitizer pass (thorough)",
 },
 "C11": {
  "text": "Runtime monitoring: proof-carrying sends with altered replies and altered exported proofs; acceptance is judged by an independent ed25519 verification of the recipient signature over the amount fixed at initiation and the excess of the returned transaction, and by kernel presence on the real chain. Once per shard the block holding a verified proof's kernel is replaced by a longer fork (the proof must stop verifying), and a proof-carrying send is made from a named source account while another account is active. Per four shards: proof-carrying sends in the callers' orders - outputs reserved with the recipient's reply (command line, send_args), and the sender's own slate bounced to its foreign API before it reserves - with the proof stripped or re-addressed to and signed by another key.",
  "design_ref": "DESIGN.md section 5 C11",
  "note": "Independent verification uses ed25519-dalek directly; the proof message layout (amount big-endian || excess || sender key) is taken from the property's wording and the wallet's documented format.",
  "technique": "runtime monitoring: soundness oracle over altered replies and altered exported proofs on real wallets and chain",
 },
 "C07": {
  "text": "Runtime monitoring with a frame-condition oracle on the wallet's raw database content, files and spendable balance around every foreign call of generated hostile and honest sequences (direct calls and the JSON-RPC handler), several thousand calls per quick run. The victim's state holds pending sends of every kind (including a late-locked one, against which forged finalize calls are made) and honest receipts that were put into the reverted state before the same slate is delivered again. Forged finalize calls include a reply to the late-locked send fabricated with a throwaway key (verifying partial signature, no output).",
  "design_ref": "DESIGN.md section 5 C07",
  "note": "The oracle parses the stored JSON records; counters (log id, derivation index) are exempt.",
  "technique": "runtime monitoring: frame-condition oracle (complete LMDB dump diff) over sequences of honest and hostile foreign calls; AddressSanitizer pass (thorough)",
 },
 "C13": {
  "text": "Runtime monitoring of the real owner listener handler with a client-side session model: every request is classified by the harness as authenticated-under-the-current-key or not, and an 'effect or data implies authenticated' oracle inspects the wallet database, files, lifecycle state and the reply; replies to authenticated requests must decrypt under the same key. Unauthenticated classes include plaintext batch arrays that hold the key-exchange call next to other calls; authenticated classes include an encrypted batch that contains a key exchange (afterwards both keys are probed: whichever is served must answer under the request's own key). At the end of every session a request is held in flight (the harness node blocks) while another party performs the plaintext key exchange: the reply must open with the key the request was made under.",
  "design_ref": "DESIGN.md section 5 C13",
  "note": "The handler is driven in-process (no socket); AES-GCM envelopes are built by the harness with ring, independently of the wallet's EncryptedRequest type.",
  "technique": "runtime monitoring: session-model oracle ('effect implies authenticated') over generated request histories on the real handler",
 },
 "C14": {
  "text": "Runtime monitoring of the real Owner API on a masked LMDB wallet: a token-kind sweep over every method with a raw-database frame condition, an invalid-mask requirement derived statically (key-using methods) and dynamically (methods observed to write with the right token), a masked-vs-unmasked differential run, and closed-wallet probes. The masked wallets' tokens are obtained through api::Owner::open_wallet; two wallets' tokens must differ and a previous session's token must not work after reopening. The last round also starts the background updater with a wrong token, and with the right token followed by close/open of the wallet: afterwards a refreshing call with the right token must still refresh.",
  "design_ref": "DESIGN.md section 5 C14",
  "note": "Wrong tokens are sampled (absent, random, one bit off, another wallet's); create_mwixnet_req is not driven.",
  "technique": "runtime monitoring: token sweep with database frame condition + masked/unmasked differential execution",
 },
 "C18": {
  "text": "Runtime monitoring on a real grin_chain::Chain that the harness reorganises block by block: after every reorganisation the recipient's records, balance figures and coin selection are judged against kernel and UTXO membership read from the chain. In every other scenario the recipient wallet has a second account whose log entries carry the same per-account ids as the payment. Every other payment carries a time-to-live that has passed when it is reorganised away; every fifth scenario the recipient has reserved (and possibly released again) the received output for a payment of its own before the reorganisation (open finding). Another fifth of the scenarios continues with a recipient wallet restored from its seed after the payment confirmed (open finding: restored entries carry no kernel).",
  "design_ref": "DESIGN.md section 5 C18",
  "note": "Fork blocks carry neutral coinbases; flip-flop depth is bounded to 0-3 blocks below the receiving block. Known open finding: a revert is not tracked once the recipient has reserved the received output (known_findings.json).",
  "technique": "runtime monitoring: chain-truth oracle over generated reorganisation scenarios on a real chain",
 },
 "C20": {
  "text": "Runtime monitoring in three parts. (1) Cooperative scheduling: the cfg-guarded hook in wallet_lock! calls back before every lock acquisition of a refresh or scan; the harness runs other complete operations (reserve, finalize, cancel, receive, initiate, finalize+post+mine, node events, a caller's nested refresh) at that point and compares the outcome of every such schedule - enumerated exhaustively for one concurrent operation and for chosen (quick) or all (thorough) pairs - with the outcomes of all serial orders from the same snapshot. (2) Real threads: two updater threads (refresh / refresh-all / scan loops with short sleeps at the lock announcements), a miner and four workers driving complete flows through api::Owner/Foreign on the same two wallets, judged at quiescent points by per-flight postconditions that hold in every serial order (each flight has its own slate id), by the reservation invariants, the books and a progress/CPU deadlock watchdog. (3) Thorough only: the real-thread job under ThreadSanitizer. The enumerator's operation set includes a pending receipt that is cancelled / mined (CancelR, MineR), switching the active account (SwitchAcct, against refresh), and a start state one block before the TTL cut-off.",
  "design_ref": "DESIGN.md section 5 C20",
  "note": "Enumeration is exhaustive for 1 concurrent operation and for chosen (quick) or all (thorough) pairs; three concurrent operations are not enumerated. Real-thread schedules are not replayable: the witness is the operation log. ThreadSanitizer reports are judged only when one of the two racing accesses is in a grin_wallet_* crate (LMDB's lock-free reader table and the harness node's grin_store are reported by TSan and counted, not judged).",
  "technique": "runtime monitoring: hook-driven schedule enumeration with a serializability oracle; real-thread stress with per-flight postcondition, invariant and deadlock monitors; ThreadSanitizer pass (thorough)",
 },
 "C16": {
  "text": "Runtime monitoring: restores and repairs are run on chains produced by generated wallet activity, with node paging varied, and judged against chain truth read directly from grin_chain (UTXO membership, value, height, coinbase flag, maturity, account, balances) plus idempotence of a second scan. Repairs are also judged after a broadcast transaction was cancelled by its sender and then mined, and after the top blocks were replaced by a longer fork (every account compared). Odd scenarios use a third account and create an account in the fresh wallet before the restore scan (every discovered path must stay reachable under some label); partial scans must keep records below their range; histories include coinbases re-requested while another account is active; job c16m restores a new-seed wallet whose coinbases belong to a non-active account.",
  "design_ref": "DESIGN.md section 5 C16",
  "note": "Chain truth covers every commitment the harness ever observed for the seed during the history.",
  "technique": "runtime monitoring: chain-truth oracle over restore/repair scans on generated chain histories",
 },
}
