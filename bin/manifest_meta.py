HOOK_COMMITS = ["2b595be", "f7394ca"]
NOT_APPLICABLE = {}
META = {
 "C19": {
  "text": "Runtime monitoring with a reference-model oracle: every owner::retrieve_txs answer over generated logs/queries is compared online with a filter written from the RetrieveTxQueryArgs documentation (membership, account, order, limit/truncation, look-ups). Exhaustive over single fields and field pairs for one log per shard, sampled beyond. This is exploration: it shows the property on the >10^5 (log, query) pairs executed, not for all inputs.",
  "design_ref": "DESIGN.md section 5 C19",
  "note": "Trusts the harness's reading of the field documentation (don't-care sets listed in the evidence assumptions) and LMDB round-tripping of the synthetic entries.",
  "technique": "runtime monitoring: reference-filter oracle over real retrieve_txs executions on generated logs/queries",
 },
}
