#!/usr/bin/env python3
"""Adapter: run the pure-Rust decoder subset of C09 (/verif/miri) under the Miri interpreter and write a
shard report in the harness format. usage: miri_job.py <seed> <shard i/n> <n_inputs> <out.json>
A Miri diagnostic (undefined behaviour, out-of-bounds, uninitialised read, leak ...) or a panic of a
decoder is a violation; a build problem or a timeout is inconclusive."""
import json, os, re, subprocess, sys, time, shutil

seed, shard, n, out = sys.argv[1], sys.argv[2], sys.argv[3], sys.argv[4]
i, ns = shard.split("/")
VERIF = os.path.dirname(os.path.dirname(os.path.abspath(__file__)))
crate = os.path.join(VERIF, "miri")
if not os.path.exists(os.path.join(crate, "Cargo.lock")):
    shutil.copy("/repo/Cargo.lock", os.path.join(crate, "Cargo.lock"))
env = dict(os.environ, CARGO_NET_OFFLINE="true", CARGO_TARGET_DIR=os.path.join(VERIF, "target-miri"),
           MIRIFLAGS="-Zmiri-disable-isolation")
t0 = time.time()
rep = {"prop": "C09", "evaluations": 0, "distinct": [], "hist": {}, "samples": [], "violations": [], "inconclusive": 0,
       "inconclusive_notes": [], "notes": [], "exhaustive": None, "extra": {}}
try:
    p = subprocess.run(["cargo", "+nightly", "miri", "run", "--offline", "--", seed, i, ns, n], cwd=crate, env=env,
                       stdout=subprocess.PIPE, stderr=subprocess.PIPE, text=True, timeout=2400)
except subprocess.TimeoutExpired:
    rep["inconclusive"] = 1
    rep["inconclusive_notes"].append("miri shard %s: watchdog" % shard)
    json.dump(rep, open(out, "w"))
    sys.exit(0)
line = next((l for l in p.stdout.splitlines() if l.startswith("{\"inputs\"")), None)
err = p.stderr
if "error: Undefined Behavior" in err or "error: unsupported operation" in err or re.search(r"^error: .*(memory leaked|data race|deadlock)", err, re.M):
    m = re.search(r"error: ([^\n]+)", err)
    loc = re.search(r"--> ([^\n]+)", err)
    where = (loc.group(1).strip() if loc else "?")
    where = re.sub(r":\d+:\d+$", "", where.replace("/repo/", ""))
    kind = (m.group(1) if m else "?")[:80]
    if "unsupported operation" in kind:
        rep["inconclusive"] = 1
        rep["inconclusive_notes"].append("miri cannot interpret this path: %s at %s" % (kind, where))
    else:
        rep["violations"].append({"signature": "C09|miri|%s|%s" % (kind.split(":")[0].strip().replace(" ", "-"), where),
                                  "what": "Miri diagnostic while decoding untrusted input: " + err[err.find("error:"):][:2500],
                                  "case": {"job": "miri", "seed": int(seed), "shard": shard, "inputs": int(n)}})
elif line is None:
    rep["inconclusive"] = 1
    rep["inconclusive_notes"].append("miri shard %s produced no result (exit %s): %s" % (shard, p.returncode, err[-400:]))
if line:
    r = json.loads(line)
    rep["evaluations"] = r["inputs"]
    for k, v in r.items():
        if k not in ("inputs", "panics"):
            rep["hist"]["inputs:" + k] = v
    for k in ("armor", "bin", "json", "addr"):
        rep["distinct"].append("%s:%d:%d" % (k, 1 if r[k + "_ok"] else 0, 1 if r[k + "_rej"] else 0))
    for pn in r.get("panics", []):
        rep["violations"].append({"signature": "C09|miri|panic|" + pn.split(" input")[0].replace(" ", "="),
                                  "what": "decoder panicked under Miri: " + pn, "case": {"job": "miri", "seed": int(seed), "shard": shard}})
rep["wall_s"] = time.time() - t0
json.dump(rep, open(out, "w"))
