"""Per-property job tables for bin/check (what to run, how many shards, minimum observations)."""

COMMON_ASSUMPTIONS = [
    "verdicts concern only the executions produced by this run (sampled universal quantifiers unless 'exhaustive' is set)",
    "the harness node is a real grin_chain::Chain (AutomatedTesting parameters, coinbase maturity 3) driven synchronously",
    "wallets run the shipped code paths (release profile, use_test_rng=false)",
]

PROPS = {}

def prop(pid, level, rule, jobs, min_eval, assumptions=None, required_hist=None, min_distinct=2):
    PROPS[pid] = {
        "level": level,
        "rule": rule,
        "jobs": jobs,
        "min_eval": min_eval,
        "assumptions": COMMON_ASSUMPTIONS + (assumptions or []),
        "required_hist": required_hist or [],
        "min_distinct": min_distinct,
    }

prop("C19", "exploration",
     "synthetic transaction logs (5-60 entries, 2-3 accounts, all six entry types, tie-heavy amount/timestamp pools) written "
     "through the public batch API into a real LMDB wallet; queries over all 18 RetrieveTxQueryArgs fields (every single field "
     "value and every pair of fields on the first log of each shard, random subsets after) executed through owner::retrieve_txs "
     "and judged by a reference filter written from the field documentation; distinct = (set of fields supplied, "
     "empty/proper-subset/all result, limit reached); non-trivial = at least one field supplied",
     [{"name": "c19", "cmd": "c19", "shards": {"quick": 8, "thorough": 16}}],
     {"quick": 10000, "thorough": 200000},
     ["documentation-silent cases are don't-care: unconfirmed cancelled entries under include_outstanding_only, cancelled/reverted "
      "entries under include_sent_only/include_received_only, entries without confirmation time under confirmation-time bounds, "
      "sent entries under amount bounds when the signed and magnitude readings disagree, tie order"],
     required_hist=["result:proper-subset", "lookups"])
