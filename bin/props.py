"""Per-property job tables for bin/check (what to run, how many shards, minimum observations)."""

COMMON_ASSUMPTIONS = [
    "verdicts concern only the executions produced by this run (sampled universal quantifiers unless 'exhaustive' is set)",
    "the harness node is a real grin_chain::Chain (AutomatedTesting parameters, coinbase maturity 3) driven synchronously",
    "wallets run the shipped code paths (release profile, use_test_rng=false)",
]

PROPS = {}

def prop(pid, level, rule, jobs, min_eval, assumptions=None, required_hist=None, min_distinct=2):
    PROPS[pid] = {
        "level": level,
        "rule": rule,
        "jobs": jobs,
        "min_eval": min_eval,
        "assumptions": COMMON_ASSUMPTIONS + (assumptions or []),
        "required_hist": required_hist or [],
        "min_distinct": min_distinct,
    }

prop("C19", "exploration",
     "synthetic transaction logs (5-60 entries, 2-3 accounts, all six entry types, tie-heavy amount/timestamp pools) written "
     "through the public batch API into a real LMDB wallet; queries over all 18 RetrieveTxQueryArgs fields (every single field "
     "value and every pair of fields on the first log of each shard, random subsets after) executed through owner::retrieve_txs "
     "and judged by a reference filter written from the field documentation; distinct = (set of fields supplied, "
     "empty/proper-subset/all result, limit reached); non-trivial = at least one field supplied",
     [{"name": "c19", "cmd": "c19", "shards": {"quick": 8, "thorough": 16}}],
     {"quick": 10000, "thorough": 200000},
     ["documentation-silent cases are don't-care: unconfirmed cancelled entries under include_outstanding_only, cancelled/reverted "
      "entries under include_sent_only/include_received_only, entries without confirmation time under confirmation-time bounds, "
      "sent entries under amount bounds when the signed and magnitude readings disagree, tie order"],
     required_hist=["result:proper-subset", "lookups"])

prop("C01", "exploration",
     "workload A: the real selection::select_coins_and_fee + inputs_and_change (hook H1) on an in-memory backend: exhaustive small "
     "scope (every multiset of <=3 mature unspent outputs over 6 values x directed amounts around total-fee(i,o)-c, 0, u64::MAX-k x "
     "change 0..4 x max_outputs {1,2,500} x both strategies x both fee modes, dealt across shards) plus sampled wallets of 0-8 outputs "
     "(all five statuses, coinbase maturity, two accounts, heights 0-20, minconf {0,1,2,10}, change {0..5,17,255}, max_outputs "
     "{0,1,2,3,500}); workload B: owner::init_send_tx (normal, estimate_only, late_lock + finalize) and process_invoice_tx on a real "
     "LMDB wallet/chain, context read back, raw LMDB dump compared after refusals. Oracle: independent spendability predicate, u128 "
     "sums, grin_core tx_fee, logical step counter. distinct = (amount class, fee mode, strategy, change count, max_outputs, number "
     "eligible, ineligible present, outcome, inputs selected, change outputs); non-trivial = all (every case reaches the selection code)",
     [{"name": "c01", "cmd": "c01", "shards": {"quick": 12, "thorough": 16}, "crash_is_violation": True}],
     {"quick": 300000, "thorough": 3000000},
     ["wallet output sets whose total value does not fit in u64 are not generated (a wallet's outputs exist on one chain, so their sum is bounded by the supply)",
      "exhaustive=true refers to the bounded small scope of workload A only"],
     required_hist=["A:built", "B:send-built", "B:invoice-paid", "B:late-lock-built"])
