"""Per-property job tables for bin/check (what to run, how many shards, minimum observations)."""

COMMON_ASSUMPTIONS = [
    "verdicts concern only the executions produced by this run (sampled universal quantifiers unless 'exhaustive' is set)",
    "the harness node is a real grin_chain::Chain (AutomatedTesting parameters, coinbase maturity 3) driven synchronously",
    "wallets run the shipped code paths (release profile, use_test_rng=false)",
]

PROPS = {}

def prop(pid, level, rule, jobs, min_eval, assumptions=None, required_hist=None, min_distinct=2):
    PROPS[pid] = {
        "level": level,
        "rule": rule,
        "jobs": jobs,
        "min_eval": min_eval,
        "assumptions": COMMON_ASSUMPTIONS + (assumptions or []),
        "required_hist": required_hist or [],
        "min_distinct": min_distinct,
    }

prop("C19", "exploration",
     "synthetic transaction logs (5-60 entries, 2-3 accounts, all six entry types, tie-heavy amount/timestamp pools) written "
     "through the public batch API into a real LMDB wallet; queries over all 18 RetrieveTxQueryArgs fields (every single field "
     "value and every pair of fields on the first log of each shard, random subsets after) executed through owner::retrieve_txs "
     "and judged by a reference filter written from the field documentation; distinct = (set of fields supplied, "
     "empty/proper-subset/all result, limit reached); non-trivial = at least one field supplied",
     [{"name": "c19", "cmd": "c19", "shards": {"quick": 8, "thorough": 16}}],
     {"quick": 10000, "thorough": 200000},
     ["documentation-silent cases are don't-care: unconfirmed cancelled entries under include_outstanding_only, cancelled/reverted "
      "entries under include_sent_only/include_received_only, entries without confirmation time under confirmation-time bounds, "
      "sent entries under amount bounds when the signed and magnitude readings disagree, tie order"],
     required_hist=["result:proper-subset", "lookups", "stored-tx-lookups:id-shared-with-another-accounts-stored-tx"])

prop("C01", "exploration",
     "workload A: the real selection::select_coins_and_fee + inputs_and_change (hook H1) on an in-memory backend: exhaustive small "
     "scope (every multiset of <=3 mature unspent outputs over 6 values x directed amounts around total-fee(i,o)-c, 0, u64::MAX-k x "
     "change 0..4 x max_outputs {1,2,500} x both strategies x both fee modes, dealt across shards) plus sampled wallets of 0-8 outputs "
     "(all five statuses, coinbase maturity, two accounts, heights 0-20, minconf {0,1,2,10}, change {0..5,17,255}, max_outputs "
     "{0,1,2,3,500}); workload B: owner::init_send_tx (normal, estimate_only, late_lock + finalize) and process_invoice_tx on a real "
     "LMDB wallet/chain with two funded accounts (source account = active account or named through src_acct_name while the other is active; "
     "for late-locked sends optionally another send reserving coins between initiation and finalization), context read back, raw LMDB dump compared "
     "after refusals, a refused late-locked finalization of an honest reply must leave nothing newly reserved. Oracle: independent spendability predicate, u128 "
     "sums, grin_core tx_fee, logical step counter. distinct = (amount class, fee mode, strategy, change count, max_outputs, number "
     "eligible, ineligible present, outcome, inputs selected, change outputs); non-trivial = all (every case reaches the selection code)",
     [{"name": "c01", "cmd": "c01", "shards": {"quick": 12, "thorough": 16}, "crash_is_violation": True}],
     {"quick": 300000, "thorough": 3000000},
     ["wallet output sets whose total value does not fit in u64 are not generated (a wallet's outputs exist on one chain, so their sum is bounded by the supply)",
      "exhaustive=true refers to the bounded small scope of workload A only"],
     required_hist=["A:built", "B:send-built", "B:invoice-paid", "B:late-lock-built", "B:late-lock-with-coin-drift", "B:fee-exceeds-the-kernel-fee-field:refused:Transaction", "A:fee-exceeds-the-kernel-fee-field:send-refused:Transaction", "B:refused:Transaction"])

prop("C08", "exploration",
     "structural generator over every optional V4 slate field (7 states, num_parts {0,1,2,3,255}, boundary integers, fee shift, "
     "kernel features {0,2,3} with arguments, offset, 0-5 participants with/without partial signatures, coms none/empty/1-40 mixing "
     "inputs, plain/coinbase outputs, real and arbitrary-content proofs, payment proof none/without/with signature); each slate goes "
     "through V4 JSON (Slate serializer, VersionedSlate), V4 binary, and slatepack armored/binary/JSON, plain and encrypted to 1-3 "
     "recipients (decrypted by each); decoded slates are compared field by field on native values with the original, with each other, "
     "and back at the SlateV4 level; plus addresses and stored records (OutputData, TxLogEntry, Context, Slatepack) through their own "
     "codecs. distinct = tuple of which optional parts were present/their size class; non-trivial = all",
     [{"name": "c08", "cmd": "c08", "shards": {"quick": 12, "thorough": 16}, "crash_is_violation": True},
      {"name": "c08-asan", "cmd": "c08", "shards": 12, "tiers": ["thorough"], "run_tier": "quick", "build": "asan", "tag": "asan", "crash_is_violation": True, "timeout": {"thorough": 3000}}],
     {"quick": 10000, "thorough": 300000},
     ["range proofs are generated at the bulletproof size only (675 bytes, real or arbitrary content): other lengths are not proofs a wallet can hold and the binary reader pads to that size",
      "slatepack payloads are bounded to 100 kB (grin_core BinReader refuses larger single reads); ill-typed combinations (feature arguments on a plain kernel, invalid FeeFields) are left to C09",
      "the transaction inside a slate is compared as (inputs, outputs with features and proofs, offset); the kernel is recomputed by design"],
     required_hist=["field:feat=2", "field:feat=3", "field:proof=with-rsig", "field:coms=some", "field:recipients=3", "field:record:txlog", "field:record:context", "field:record:slatepack-encrypted", "real-kernel:feat=2:rebuilt-equal", "real-kernel:feat=3:rebuilt-equal", "field:fee:multiple-of-2^40", "heavy-slate-within-the-weight-limit:slatepack-read-back"])

prop("C10", "exploration",
     "slates from the C08 generator packed for 0-4 recipients with/without sender; per message: every recipient key must recover slate and "
     "sender from the armored, binary and JSON forms; 11 non-recipient keys and no key must fail; slate binary/JSON/id and sender "
     "bech32/raw/hex searched in the text forms, the base58-decoded armor and the base64-decoded JSON payload; edits (substitution, "
     "deletion, insertion, adjacent transposition at every position of the first message per shard, sampled positions after; single-bit "
     "flips of the binary form and JSON payload) must be rejected or decode to the identical slate+sender (unencrypted armor: a different "
     "slate only with a genuinely matching independent double-SHA256 check); plus owner::create_slatepack_message / "
     "slate_from_slatepack_message / decode_slatepack_message on real wallets with right/wrong derivation indices and wallets. "
     "distinct = (recipient count, sender present, state, commitment count class, proof present); non-trivial = all",
     [{"name": "c10", "cmd": "c10", "shards": {"quick": 12, "thorough": 16}, "crash_is_violation": True},
      {"name": "c10-asan", "cmd": "c10", "shards": 12, "tiers": ["thorough"], "run_tier": "quick", "build": "asan", "tag": "asan", "crash_is_violation": True, "timeout": {"thorough": 3000}}],
     {"quick": 100000, "thorough": 1000000},
     ["'no other key' is tested for the other pool keys, random keys, other derivation indices and the other wallet, not for all keys",
      "unencrypted binary/JSON slatepacks carry no integrity protection and are outside the statement (only armored text is)"],
     required_hist=["recipient-decrypt-ok", "non-recipient-refused", "cleartext-searches", "edit-rejected:armored:transpose", "edit-rejected:binary:bitflip", "api:other-index-refused", "api:recipient-index-among-others-decrypts"])

prop("C09", "exploration",
     "27 decoder entry points (armor, slatepack deser+decrypt+get_slate, V4 JSON/binary, slatepack JSON/binary, payment proof / InitTxArgs / "
     "query args / BlockFees JSON, slatepack and onion addresses, owner slatepack functions on a real wallet, slatepack file reader, stored-tx "
     "file, wallet.seed file, raw JSON-RPC bodies on the foreign and owner handlers incl. validly encrypted hostile plaintext and hostile "
     "parameters) called under catch_unwind with a counting allocator (cap 64 MB + 64 x input), CPU meter, journal and watchdog. Inputs: "
     "hostile strings and random bytes into every entry; valid encodings from the structural generator and, per valid encoding, every "
     "single-position byte mutation (set 00/ff, +1, bit flip, delete) and truncation (all positions, dealt across shards, for the first "
     "encodings; sampled after), every single-field JSON mutation (15 hostile values + delete + x300 array) ; slatepacks validly age-encrypted "
     "to the wallet whose plaintext is malformed; a passphrase-type age file in a mode-1 slatepack. distinct = (entry point, input class, "
     "accepted/rejected, length bucket); non-trivial = all",
     [{"name": "c09", "cmd": "c09", "shards": {"quick": 12, "thorough": 16}, "crash_is_violation": True, "timeout": {"quick": 900, "thorough": 3000}},
      {"name": "c09-asan", "cmd": "c09", "shards": 12, "tiers": ["thorough"], "run_tier": "quick", "build": "asan", "tag": "asan", "crash_is_violation": True, "args": {"thorough": {"cpulimit": 60}}, "timeout": {"thorough": 3000}},
      {"name": "c09-ovf", "cmd": "c09", "shards": 12, "tiers": ["thorough"], "run_tier": "quick", "build": "ovf", "tag": "ovf", "crash_is_violation": True, "timeout": {"thorough": 3000}},
      {"name": "c09-miri", "cmd": "miri", "runner": "miri", "inputs": 80, "shards": 16, "tiers": ["thorough"], "tag": "miri", "timeout": {"thorough": 3000}},
      {"name": "c09-valgrind", "cmd": "c09", "wrap": "valgrind", "shards": 12, "tiers": ["thorough"], "run_tier": "quick", "args": {"thorough": {"pct": 3, "cpulimit": 900}}, "tag": "valgrind", "timeout": {"thorough": 3400}}],
     {"quick": 300000, "thorough": 3000000},
     ["armored inputs are kept below ~20 kB (base58 decoding is quadratic; bounded by the size limit, so not a violation, but too slow to sweep)",
      "child-index (derivation counter) bumps are not counted as wallet state for the 'rejected input leaves state untouched' clause",
      "the quick verdict build is the release profile; arithmetic on outside data that overflows (a panic in builds with overflow checks, a wrapped value in the released one) is looked for by the thorough tier's ovf slice (release + -C overflow-checks=on)"],
     required_hist=["rejected:armor_decode", "accepted:deser_slatepack+decrypt+get_slate", "rejected:foreign-rpc:body", "rejected:owner-rpc:plaintext-body", "rejected:wallet.seed(open_wallet)", "rejected:get_stored_tx(file)"])

HIST_RULE = ("random interleaved histories over 2 wallets x 2 accounts with up to 3-4 slates in flight (sends, late-locked sends, invoices, "
             "self-sends and - for C04 and C12 - invoices a wallet pays itself; mining to either wallet or a neutral miner; refreshes incl. injected node failures; cancels; wallet restarts; "
             "duplicated and re-ordered deliveries where the property quantifies over them), every call bracketed in an event log and "
             "followed by the monitors; evaluations = steps executed; distinct = (slates in flight, locked, finalized, last operation) shapes "
             "and judged book states; non-trivial = all steps (each is followed by a monitor pass)")

prop("C03", "exploration", HIST_RULE + "; C03 monitor M-excl: every Locked output belongs to exactly one live sent entry of its account, every live sent "
     "entry still holds its logged inputs, inputs of each finalized transaction are reserved for that slate, finalized live transactions are pairwise "
     "input-disjoint, and a repeated tx_lock_outputs / receive_tx / finalize_tx / process_invoice_tx with the same slate to the same account is "
     "refused without any change or returns Ok without adding entries, outputs or reservations",
     [{"name": "c03", "cmd": "c03", "shards": {"quick": 14, "thorough": 16}, "args": {"thorough": {"histories": 10}}, "crash_is_violation": True}],
     {"quick": 3000, "thorough": 40000},
     ["deliveries of one slate to a different account are judged only by the exclusivity invariants (the statement says 'the same step')",
      "histories of this check never cancel after broadcast"],
     required_hist=["repeat:tx_lock_outputs:refused", "repeat:receive_tx:refused", "repeat:finalize_tx:refused", "finalized-inputs-checked", "op:cancel", "op:restart", "op:lock-called-on-a-late-locked-send-before-finalize:ok", "repeat:receive_tx(into-another-account):refused", "op:finalize-of-a-self-paid-invoice-whose-paying-half-is-not-reserved", "repeat:process_invoice_tx(from-another-account):refused"])

prop("C04", "exploration", HIST_RULE + "; C04 monitor M-books at every validated refresh: wallet records Unspent/Locked <=> commitment in the chain's UTXO set "
     "(plus: no UTXO commitment ever held by the account is forgotten), reported spendable/immature/awaiting/locked/total for minimum_confirmations "
     "{0,1,3,10} equal the partition recomputed from chain heights and coinbase flags, unspent+locked = confirmed credits - debits, and no operation "
     "of one account locks or spends another account's outputs",
     [{"name": "c04", "cmd": "c04", "shards": {"quick": 14, "thorough": 16}, "args": {"thorough": {"histories": 10}}, "crash_is_violation": True},
      {"name": "c04m", "cmd": "c04m", "shards": {"quick": 2, "thorough": 4}, "crash_is_violation": True}],
     {"quick": 3000, "thorough": 40000},
     ["histories never cancel after broadcast and never reorganise (the statement excludes those)",
      "once per history, while transactions are pending, the chain grows by 51-56 blocks at once (a transaction finalized long before it is broadcast)",
      "job c04m: a brand-new wallet (own seed, init status 'no scanning') builds coinbases into a non-active account, more than 100 blocks pass, then 'default' and then that account are refreshed: its records must be its outputs in the UTXO set",
      "refreshes that report validated=false or an error are not judged"],
     required_hist=["books:judged", "transition:Unconfirmed->Unspent", "transition:Locked->Spent", "transition:Unspent->Locked", "op:refresh-not-validated", "op:restart", "op:burst-of-more-than-50-blocks", "books:judged-for-an-account-refreshed-after-another", "op:coinbase-re-requested-under-another-active-account:mined"])

prop("C15", "exploration", HIST_RULE + "; C15 monitor M-keypath: per wallet a map derivation path -> first (commitment, value) over every output record ever "
     "seen (including later deleted ones); a path re-appearing with another commitment or value is a violation unless both are coinbase and the earlier "
     "record was still an unconfirmed candidate; two simultaneous records may never share a path",
     [{"name": "c15", "cmd": "c15", "shards": {"quick": 14, "thorough": 16}, "args": {"thorough": {"histories": 10}}, "crash_is_violation": True},
      {"name": "c15r", "cmd": "c15r", "shards": {"quick": 2, "thorough": 8}, "crash_is_violation": True}],
     {"quick": 3000, "thorough": 40000},
     ["output records are observed after every step (a record created and deleted inside one wallet call is not seen)"],
     required_hist=["op:receive", "op:lock", "op:mine", "op:restart", "restore:next-path-beyond-chain", "op:coinbase-request-naming-a-confirmed-coinbase:ok", "op:coinbase-request-naming-a-mined-but-not-yet-refreshed-coinbase:ok", "restore:interrupted-scan-then-repeated:next-path-beyond-chain"])

prop("C06", "fault_enumeration",
     "scenarios send (init, lock, receive, finalize, cancel), invoice (issue, process, lock, foreign finalize), late-locked send (init, receive, "
     "finalize with locking), self-send, bookkeeping (create account, build coinbase, refresh, scan with/without delete_unconfirmed); every "
     "operation runs in a child process from a directory snapshot under an LD_PRELOAD interposer that numbers the persistence calls (write, "
     "pwrite, writev, fsync, fdatasync, ftruncate, rename, unlink, creating open) below the world directory; pass 1 records the call sequence, "
     "pass 2 runs once per (call index) x {kill-before, fail:EIO, fail:ENOSPC} + kill-after the last + short writes of stored-tx files; the "
     "parent reopens chain and wallets and runs the recovery oracle (loads, queries answer, Locked <-> live entry, reservation all-or-nothing, "
     "next key index beyond used paths, cancel restores the pre-transaction spendable balance, interrupted refresh/scan completes to the "
     "reference state); plus every truncation length of a stored-tx file and of wallet.seed. distinct = (scenario, step, call index, mode); "
     "non-trivial = all; exhaustive refers to the enumerated call indices of the listed scenarios",
     [{"name": "c06", "cmd": "c06", "shards": {"quick": 16, "thorough": 16}, "timeout": {"quick": 900, "thorough": 3000}}],
     {"quick": 800, "thorough": 1500},
     ["crash model is process death (SIGKILL) and failing calls; power loss with un-synced page cache is out of scope",
      "a kill inside LMDB's own commit may leave either the old or the new state; the oracle never asks which"],
     required_hist=["mode:kill-before", "mode:fail", "mode:short", "fail-mode:err", "truncation:grintx-reported-as-error", "truncation:seed-reported-as-error"])

prop("C12", "exploration", HIST_RULE + "; C12 monitors: M-nonce records the public nonce and public excess of every participant entry a wallet emits (S1/I1/S2/I2 slates) and "
     "flags reuse across slate ids or within a slate; M-secrets searches every file below each wallet directory (LMDB file raw, free pages included, stored "
     "transactions, seed file) and every emitted message for the seed, 4-word runs of the phrase and the true context secrets (obtained through "
     "get_private_context) as raw bytes, hex (both cases), base64 and JSON integer arrays. Job c12s: seeds of 16/20/24/28/32 bytes x passwords (empty, "
     "ASCII, unicode, padded, 1 kB): right password, 6-8 wrong passwords, an independent PBKDF2-HMAC-SHA512 + ChaCha20-Poly1305 decryptor (RustCrypto); "
     "change_password and recover_from_mnemonic in a child under the persistence interposer, interrupted at every call index x {kill-before, "
     "kill-after, fail EIO/ENOSPC, short writes}: some wallet.seed* file must still decrypt to the original seed under the old or new password",
     [{"name": "c12h", "cmd": "c12h", "shards": {"quick": 10, "thorough": 12}, "args": {"thorough": {"histories": 10}}, "crash_is_violation": True},
      {"name": "c12s", "cmd": "c12s", "shards": {"quick": 4, "thorough": 4}}],
     {"quick": 2500, "thorough": 30000},
     ["secrets are searched in the listed encodings only; a leak in another encoding would be missed",
      "the recipient's never-persisted context cannot be compared; XOR-masked stored values are not plaintext",
      "interruptions are process death / failing calls, not power loss"],
     required_hist=["nonces-recorded", "secrets:contexts-searched", "secrets:haystacks-searched", "wrong-password-refused", "independent-decrypt-agrees", "interrupted:change_password:recoverable", "interrupted:recover:recoverable", "second-reply-after-finalization:Invoice:refused", "second-reply-after-finalization:Send:refused"])

prop("C17", "exploration",
     "sweep over protocol step (receive_tx, finalize_tx, process_invoice_tx, foreign finalize of an invoice) x cutoff - observed height in -3..+3 plus "
     "cutoffs 0, 1, u64::MAX, the acting wallet having refreshed its active account at the tip first; and refresh cases: the wallet's own pending "
     "transaction (sender / recipient role) with a 2-4 block ttl, 0-3 other pending transactions without or with a later ttl created before or after it, "
     "chain mined to cutoff-1 / cutoff / cutoff+1, then one refresh. Oracle: accepted => not expired; refused-for-expiry => expired and state unchanged; "
     "validated refresh at tip >= cutoff => entry cancelled and nothing reserved; other transactions untouched. distinct = (step, delta/special, "
     "expired) and (role, others, order, delta); non-trivial = all",
     [{"name": "c17", "cmd": "c17", "shards": {"quick": 14, "thorough": 16}, "crash_is_violation": True}],
     {"quick": 80, "thorough": 500},
     ["'observed height' is the active account's last confirmed height after a successful refresh at the tip",
      "a refresh that returns an error or validated=false is not judged"],
     required_hist=["refused-expired:Receive", "refused-expired:Finalize", "refused-expired:PayInvoice", "refused-expired:FinalizeInvoice", "accepted-in-time:Receive", "refresh-released-expired", "step-arrives-while-another-account-is-active:Receive", "huge-ttl_blocks:cutoff-ahead", "height-observed-only-through-an-output-refresh-inside-another-operation", "refresh-case:older-ttl-send-confirmed-only-by-its-kernel", "refresh-kept-unexpired", "refresh-kept-other-pending", "refresh-case:self-send-in-one-account", "pay-invoice-with-own-ttl_blocks"])

prop("C05", "exploration",
     "two wallets x two accounts; pending transaction kinds (sent: locked / received by peer / finalized; received; received then finalized by peer; invoice payee: issued / processed; "
     "invoice payer locked; late-locked after finalize; self-send) x 0-3 other pending transactions created first x cancel by log id or slate id x 1-3 change "
     "outputs, plus minimum_confirmations=0 spends of a still-unconfirmed output; every third case also puts pending sends and receipts into the wallet's other account so that their per-account log ids cover the id of the transaction under test. The view P0 (per output: path, status, value, height, lock height; every "
     "log entry of every account; balance figures of every account for minconf 0/1/3/10) is taken after a refresh right before the transaction is created; after the cancel the view must equal "
     "P0 except for the cancelled entry itself. Then cancels of already cancelled / unknown / coinbase / confirmed entries must be refused without change, and so must the "
     "cancel of a send (with / without change output) that is already mined but which the wallet has not refreshed since. "
     "distinct = (kind, other pending, addressing, change, minconf0); non-trivial = all",
     [{"name": "c05", "cmd": "c05", "shards": {"quick": 14, "thorough": 16}, "crash_is_violation": True}],
     {"quick": 250, "thorough": 1500},
     ["no block is mined and no coin-selecting step runs between creation and cancel (their choices legitimately depend on the reservation)",
      "the output's link to a log entry (tx_log_entry) is not part of the compared state; status, value, heights and balances are",
      "a self-send is cancelled by log id (two entries share the slate id)"],
     required_hist=["exact-rollback:SentFinalized", "exact-rollback:Received", "exact-rollback:InvoicePayerLocked", "exact-rollback:LateLockedFinalized", "exact-rollback:SelfSend", "self-send:cancel-by-slate-id", "received-again-after-an-earlier-cancelled-attempt:cancel-by-slate-id", "refused:no-transaction-named", "refused:confirmed", "refused:coinbase", "refused:already-cancelled", "refused:mined-but-not-yet-seen", "cross-account:log-id-shared-with-a-pending-entry-of-the-other-account", "case-with-scan-restored-coins"])

prop("C02", "exploration",
     "scenarios over send / late-locked send / self-send / invoice with random amount, 1-3 change outputs, ttl, amount-includes-fee, optional payment proof, on "
     "wallets with mined history; for each honest reply ~60 alterations are finalized one after another (amount, fee, ttl, offset, id, all 7 states, "
     "num_participants, version, kernel feature; each participant's partial signature flipped/dropped, nonce and excess swapped/replaced/duplicated/dropped; "
     "outputs removed/duplicated/replaced/added, proof swapped; transaction removed; attacker-level replies re-signed with a harness keychain for another "
     "amount, lower fee or an extra output; payment-proof fields). Oracle 'success => exact': a reply that finalizes must give a transaction that validates, "
     "has the kernel fee agreed at initiation, spends exactly the inputs recorded in the context (recomputed from the seed by the harness), contains every "
     "recorded change output and no output that is neither change nor the counterparty's honest output, equals get_stored_tx byte for byte, and is mined by "
     "the real chain; a refused reply leaves state unchanged and the transaction cancellable to the pre-send balance. Per shard also: init, reply, lock, cancel_tx, "
     "then finalize_tx with the honest reply (with change / without change output): refused, or every input reserved again. distinct = (flow, alteration, outcome); "
     "non-trivial = all",
     [{"name": "c02", "cmd": "c02", "shards": {"quick": 14, "thorough": 16}, "crash_is_violation": True, "timeout": {"quick": 900, "thorough": 3000}},
      {"name": "c02-asan", "cmd": "c02", "shards": 12, "tiers": ["thorough"], "run_tier": "quick", "build": "asan", "tag": "asan", "crash_is_violation": True, "timeout": {"thorough": 3000}}],
     {"quick": 800, "thorough": 5000},
     ["kernel-feature arguments are excluded as the statement says", "honest replies that fail are inconclusive, never violations"],
     required_hist=["success-exact:Send", "success-exact:Invoice", "success-exact:LateLock", "success-exact:SelfSend", "refused:altered", "cancel-after-refused-reply-restores-balance", "late-lock-cli-order:accepted-with-inputs-reserved", "planted-receive-with-the-id-of-the-pending-send:accepted", "cross-account-cancel:other-accounts-send-finalized-with-inputs-reserved", "refused-reply-on-chain-excess:still-cancellable-after-refresh", "hostile-invoice-finalized-id:stored-transaction-intact(refused)", "hostile-invoice-payer:accepted:fee-that-meets-the-minimum", "hostile-invoice-payer:refused:fee-below-the-minimum", "success-exact:Invoice(hand-built payer half)"])

prop("C11", "exploration",
     "proof-carrying sends (send, late-locked, self-send; random amounts and change shapes) whose replies are altered field-wise (proof stripped, signature "
     "dropped / bit-flipped / made by another key with or without a matching address / taken from another transaction, recipient or sender address replaced "
     "or swapped) before finalization; success => the finalized slate carries the requested recipient's signature that verifies independently (ed25519-dalek) "
     "over amount || final kernel excess || sender address. After an accepted finalization the exported proof must fail verification before the kernel is "
     "mined, verify after mining, and fail for 11 alterations (amount +-1, excess bit / another on-chain kernel, either address, swapped addresses or "
     "signatures, bit-flipped signatures, sender signature by another key). distinct = (flow, alteration, outcome); non-trivial = all",
     [{"name": "c11", "cmd": "c11", "shards": {"quick": 12, "thorough": 16}, "crash_is_violation": True, "args": {"quick": {"scenarios": 6}}, "timeout": {"quick": 900, "thorough": 3000}}],
     {"quick": 500, "thorough": 4000},
     ["'kernel not on chain' is tested before mining and, once per shard as its last action, after the block holding the kernel was replaced by a longer fork without it",
      "once per shard a proof-carrying send (standard or late-locked) is initiated from a named account (src_acct_name) while another account is active; a refusal is accepted, a success must export a verifying proof"],
     required_hist=["exported-proof-verifies", "unmined-proof-rejected", "altered-proof-rejected", "refused:altered", "success-exact:Send", "success-exact:LateLock", "reorganised-away-proof-rejected", "proof-callers-order:locked-with-the-reply:altered:refused", "proof-callers-order:locked-with-the-reply:honest:accepted", "proof-callers-order:own-slate-bounced-to-the-senders-foreign-api:altered:refused"])

prop("C07", "exploration",
     "sequences of foreign calls (direct Foreign functions and JSON-RPC bodies through ForeignAPIHandlerV2::post) against a victim wallet holding confirmed outputs, "
     "a locked pending send awaiting its reply, a late-locked pending send (nothing reserved yet) with its genuine reply held back, an issued invoice and an unconfirmed coinbase candidate, two accounts: honest receives (default / other account) "
     "and their second delivery (also after the first receipt has been put into the state a reorganisation + scan leaves: entry reverted, output reverted), hostile receives from the structural slate generator mixed with the victim's own slate ids, output commitments and public "
     "participant data, build_coinbase with arbitrary fees/heights and key ids (none, existing outputs' paths, an unconfirmed candidate's path, random), "
     "finalize_tx with generated slates, the victim's own S1 echoed back, the genuine reply with a damaged partial signature or without the recipient output, "
     "a fabricated Invoice2 under the own invoice id, check_version. Oracle: diff of the complete LMDB key/value dump before/after each call (plus files and "
     "spendable balance): only one new Unconfirmed output + one TxReceived entry (receive) or one coinbase candidate (build_coinbase, which may replace a "
     "still-unconfirmed candidate) may appear; nothing existing may change or vanish; honest receive: exactly one output of the slate amount in the "
     "destination account, reply with only the recipient's signed entry, second delivery refused without effect. distinct = (call kind, outcome, transport, "
     "records added); non-trivial = all",
     [{"name": "c07", "cmd": "c07", "shards": {"quick": 12, "thorough": 16}, "crash_is_violation": True},
      {"name": "c07-asan", "cmd": "c07", "shards": 12, "tiers": ["thorough"], "run_tier": "quick", "build": "asan", "tag": "asan", "crash_is_violation": True, "timeout": {"thorough": 3000}},
      {"name": "c07-ovf", "cmd": "c07", "shards": 12, "tiers": ["thorough"], "run_tier": "quick", "build": "ovf", "tag": "ovf", "crash_is_violation": True, "timeout": {"thorough": 3000}}],
     {"quick": 2500, "thorough": 30000},
     ["id and derivation counters may advance on a refused call (they reserve nothing)",
      "a validly counter-signed reply to an own slate is C02's domain and is not sent here"],
     required_hist=["HonestReceive:ok", "RepeatReceive:refused", "HostileReceive:ok", "HostileReceive:refused", "BuildCoinbase:ok", "HostileFinalize:refused", "hostile-finalize:fabricated-reply-to-the-late-locked-send(throwaway-key)", "received-payment-put-into-reverted-state"])

prop("C13", "exploration",
     "session histories on OwnerAPIHandlerV3::post (in-process hyper requests): plaintext and encrypted (re-)key exchanges interleaved with requests; a client "
     "model tracks the current and superseded keys. Unauthenticated requests: plaintext calls of 35 owner methods with effect-capable parameters "
     "(create_account_path, init_send_tx, open/close/delete wallet, set_top_level_directory, get_mnemonic ...), envelopes under superseded or random keys, "
     "bit flips in ciphertext/tag/nonce, malformed nonces (short, long, non-hex, non-ASCII), bad base64, batch arrays mixing a valid envelope with a plaintext "
     "call, plaintext batch arrays holding the key-exchange call next to other calls (first, last, followed by two), plaintext calls carrying envelope fields, odd jsonrpc/id values, non-JSON bodies, forged result objects. Oracle: effect or data => authenticated: "
     "after each such request the LMDB dump, files, open/closed state, top-level directory and active account are unchanged, the reply carries no result, and "
     "a probe under the current key still decrypts (session key unchanged). Authenticated requests (12 methods incl. calls that fail at the API level) must be "
     "answered with an envelope that decrypts under the same key. distinct = (request class, method, reply error code); non-trivial = all",
     [{"name": "c13", "cmd": "c13", "shards": {"quick": 12, "thorough": 16}, "crash_is_violation": True}],
     {"quick": 5000, "thorough": 100000},
     ["a request with valid ciphertext under the current key but another envelope method string is a don't-care (the statement only forbids effects of unauthenticated requests)"],
     required_hist=["key-exchange:plaintext", "key-exchange:encrypted-reinit", "authenticated:inner-ok", "authenticated:inner-error", "unauthenticated:plaintext-call", "unauthenticated:envelope-under-superseded-key", "unauthenticated:bit-flipped-body", "unauthenticated:batch-array", "unauthenticated:batch-array-with-key-exchange", "authenticated:batch-with-key-exchange", "in-flight-request-answered-under-its-own-key", "late-body-under-superseded-key:refused"])

prop("C14", "exploration",
     "wallets opened with a keychain mask through api::Owner::open_wallet (their tokens must differ); 30 api::Owner methods (each with arguments valid for the current state: own initiated / locked slates, a "
     "counterparty reply, an incoming invoice, a slatepack encrypted to the wallet, an exported payment proof, a freshly mined block so that refreshing "
     "calls have something to write) are invoked with an absent, a random, a one-bit-off and another masked wallet's token, then with the right token. "
     "Oracle: any wrong token leaves the complete LMDB dump and files unchanged; methods that cannot work without the master key must answer with the "
     "invalid-mask error; if the right token made the method write state, every wrong token must have been answered with the invalid-mask error. "
     "Differential: a masked and an unmasked wallet of the same seed driven by the same 40-120 operations (mine, refresh, send, receive, send+cancel, "
     "account, scan) must have equal canonical projections after every operation. After close_wallet every method must fail; after reopening the new token "
     "works and the old one does not. distinct = (method, token kind, outcome) and differential states; non-trivial = all",
     [{"name": "c14", "cmd": "c14", "shards": {"quick": 8, "thorough": 16}, "crash_is_violation": True}],
     {"quick": 2000, "thorough": 20000},
     ["methods that only check the token for API consistency (accounts, post_tx, get_stored_tx, set_active_account) and pure readers are only required to leave the store unchanged",
      "start_updater's own return value is a don't-care (the refresh it attempts fails inside the thread)"],
     required_hist=["wrong-token:invalid-mask", "right-token:wrote-state", "differential:equal-throughout", "closed-wallet:refused", "reopened:works-with-new-token", "tokens-of-two-wallets-differ", "updater:started-with-a-wrong-token:right-token-refresh-still-works", "updater:started-with-the-right-token-then-wallet-reopened:right-token-refresh-still-works"])

prop("C16", "exploration",
     "chain histories produced by the history engine (2 wallets x 2 or 3 accounts, sends, invoices, late locks, self-sends, cancels before broadcast, coinbases to "
     "either wallet, 70-150 steps) settled and refreshed; then per seed: (a) a fresh wallet created from the phrase and scanned (start None or 1) with node "
     "page sizes {as asked,1,2,3,7,1000}: its Unspent records must be exactly the seed's commitments in the UTXO set (every commitment the harness ever saw "
     "for that seed) with the chain's value, height, coinbase flag, maturity and account, per-account spendable/immature must equal the values computed from "
     "chain truth, the total spendable must equal the original wallet's (when it holds no reservations), and a second scan must change nothing; (b) the "
     "original wallet with injected divergences (deleted output, Unspent->Spent, Unspent->Locked with a fabricated pending entry, stale Unconfirmed output) "
     "scanned with/without delete_unconfirmed: same comparison, no pending records left with delete_unconfirmed, second scan changes nothing; "
     "(c) a transaction broadcast, then cancelled by the sender, then mined: scan of both wallets, same comparison; (d) last, the top 2-5 blocks replaced "
     "by a longer fork of neutral blocks: scan of both wallets, same comparison over every account. "
     "distinct = (kind, wallet, outputs in UTXO, page size, start / injected set); non-trivial = all",
     [{"name": "c16", "cmd": "c16", "shards": {"quick": 14, "thorough": 16}, "crash_is_violation": True},
      {"name": "c16m", "cmd": "c16m", "shards": {"quick": 2, "thorough": 4}, "crash_is_violation": True}],
     {"quick": 90, "thorough": 600},
     ["balances are read after a refresh of the account (the figures are relative to the account's confirmed height)",
      "job c16m: same new-wallet/non-active-account situation, then a scan with a start height near the tip: nothing recorded that is in the UTXO set may be lost",
      "mid-chain start heights are not judged for completeness"],
     required_hist=["restore:matches-chain-truth", "restore:second-scan-no-change", "repair:matches-chain-truth", "repair:second-scan-no-change", "restore:spendable-equals-original", "repair-after-cancel-of-broadcast:matches-chain-truth", "repair-after-reorg:matches-chain-truth", "partial-scan:keeps-records-below-its-range", "restore:account-created-before-the-scan", "op:coinbase-re-requested-under-another-active-account:mined"])

prop("C18", "exploration",
     "a payment from wallet 0 to wallet 1 is mined (0-2 earlier and later blocks mined by the recipient, so that its coinbases can be orphaned) and confirmed; then "
     "1-5 flip-flops: a fork is built block by block directly on the real chain from a point 0-3 blocks below the receiving block, one to two blocks longer "
     "than the current branch, alternately without and with the payment; the recipient looks (refresh or scan) at a random block in the middle of the "
     "reorganisation. Oracle from chain truth (kernel on the main chain? output in the UTXO set?): after a scan or full refresh of a branch without the kernel "
     "the entry must be TxReverted/unconfirmed, its output neither Unspent nor Locked, not selected by init_send_tx with minimum_confirmations 0 or 1, orphaned "
     "coinbases not counted, total not above the value held in the UTXO set, and a later ordinary refresh must not resurrect it; after a branch with the "
     "payment an ordinary refresh must report it received, confirmed and Unspent. distinct = (revert/reconfirm, fork depth, fork length, mid-reorg look, "
     "full-look kind); non-trivial = all",
     [{"name": "c18", "cmd": "c18", "shards": {"quick": 14, "thorough": 16}, "crash_is_violation": True}],
     {"quick": 120, "thorough": 1500},
     ["forks are longer than the branch they replace (the wallet ignores a node whose height is below its confirmed height)",
      "in every other scenario the recipient wallet has a second account whose (coinbase) log entries carry the same per-account ids as the payment",
      "orphaned coinbase rewards are judged for the active account (the one a refresh looks at)"],
     required_hist=["judged-reverted:scan", "judged-reverted:full-refresh", "judged-confirmed:refresh", "recipient-has-a-second-account-with-colliding-log-ids", "payment-carries-a-time-to-live-that-has-passed-when-it-is-reorganised-away", "recipient-reserved-the-received-output-for-an-own-send", "recipient-restored-from-seed-after-the-payment-confirmed"])

prop("C20", "exploration",
     "schedules at wallet-lock granularity, enumerated: hook H2 announces every wallet_lock! acquisition of update_wallet_state / scan / scan with "
     "delete_unconfirmed (9-13 per run); at each acquisition position (lock not held) the harness runs complete other operations inline - reserve, finalize, "
     "cancel, receive, initiate, finalize+post+mine, node events (a block, enough blocks to pass a pending TTL) - singly at every position and in pairs at "
     "every position pair in both orders, each schedule starting from the same directory snapshot (A: two sends and a coinbase mined but not yet seen, a "
     "reserved send with TTL pending, B: the same past the TTL, C: B with one output record deleted and one wrongly Spent). Oracle: the final canonical "
     "records (outputs with status, value and the content of their entry; entries as a multiset with type, confirmation, amounts, fee, TTL, kernel excess by "
     "value for pre-made slates, proof signatures present, stored tx; child indices per account) together with which operations took effect must equal the "
     "outcome of one of the serial orders run on the same snapshot. The operation set includes Look (a caller's retrieve_summary_info(refresh=true), i.e. a complete nested refresh on another thread). distinct = (start state, operations, positions, outcome); non-trivial = all",
     [{"name": "c20", "cmd": "c20", "shards": {"quick": 16, "thorough": 16}, "crash_is_violation": True, "timeout": {"quick": 1500, "thorough": 5400}},
      {"name": "c20t", "cmd": "c20t", "shards": {"quick": 8, "thorough": 16}, "tag": "threads", "crash_is_violation": True, "timeout": {"quick": 1200, "thorough": 3000}},
      {"name": "c20t-tsan", "cmd": "c20t", "shards": 4, "tiers": ["thorough"], "run_tier": "quick", "build": "tsan", "tag": "tsan", "timeout": {"thorough": 3000}}],
     {"quick": 2000, "thorough": 15000},
     ["operations are atomic under the wallet lock, so interleavings are enumerated at lock-acquisition granularity, the granularity the property quantifies over",
      "a refresh/scan that returns an error under an interleaving is counted, not judged",
      "real-thread job (hist keys 'threads:'): 2 updater threads (refresh / refresh-all / scan loop with 0-0.6 ms sleeps at the lock announcements), a miner and 4 workers driving complete flows through api::Owner/Foreign on the same two wallets; judged at quiescent points by per-flight postconditions that hold in every serial order, the reservation invariants and the books; schedules are not replayable, the witness is the operation log",
      "thorough only: the same real-thread job under ThreadSanitizer (hist keys 'tsan:'); reports are deduplicated by kind and first repository frame"],
     required_hist=["schedule-serializable", "schedules-in-configs-where-order-matters", "threads:threads:judged:books", "threads:threads:flight:mined", "threads:threads:flight:cancelled"])
