#!/usr/bin/env python3
"""Print the prompt for an auditing sub-agent: property text + scratch worktree only; asks for an EXISTING violation."""
import json, sys
pid, wt, out = sys.argv[1], sys.argv[2], sys.argv[3]
extra = sys.argv[4] if len(sys.argv) > 4 else ""
p = [json.loads(l) for l in open('/verif/properties.jsonl') if json.loads(l)['id'] == pid][0]
print(f"""You are helping test the Rust project grin-wallet (the reference Grin / Mimblewimble wallet). A scratch git worktree of the project is at {wt} (use only this directory and {out}; do not touch /repo or /verif, and do not read anything under /verif).

Here is a semantic property the code is supposed to satisfy:

  Title: {p['title']}
  Statement: {p['statement']}
  Scope: {p['quantifier']['text']}

Your task: find out whether the CURRENT, unmodified code violates this property for some input, sequence of operations, account configuration, interleaving or fault - and if so, demonstrate it. Do NOT modify the source. Read the code that implements the behaviour (start from libwallet/src/api_impl/owner.rs, libwallet/src/api_impl/foreign.rs, libwallet/src/internal/*.rs, impls/src/backends/lmdb.rs, controller/src/controller.rs as relevant), think about unusual but legitimate situations (several accounts with src_acct_name / dest_acct_name, repeated or re-ordered protocol steps, minimum_confirmations 0, zero or many change outputs, late_lock, invoices, self-sends, TTLs, payment proofs, cancelled transactions, reorganisations, a node that is briefly unreachable, wallets restored from seed, several wallets sharing a seed), and look for a concrete scenario in which the statement is false on the code as it is. {extra}

Use at most 4 parallel build jobs (pass -j 4 to cargo; always pass --offline, the sandbox has no network). Build output goes to {wt}/target.

For each violation you can actually reproduce (at most three; prefer distinct root causes), write a Rust integration test (for example under {wt}/controller/tests/, modelled on the existing tests there, which show how to set up a local chain proxy and wallets) that FAILS on the current code because the property is violated, with an assertion message that says what was expected. Run it and make sure it fails for the reason you claim. Do not report things you could not reproduce; do not report violations that need a modified source. If you find nothing after a thorough look, say so - that is a useful answer too.

Deliver, in the directory {out} (create it):
 - one test file per finding (finding1.rs, finding2.rs, ...) plus findings.md saying, per finding: the scenario step by step, what the property requires, what the code does instead (with the code location that causes it), where to place the test and the exact command to run it, and its output.

When done, remove your test files from the worktree and delete {wt}/target. Reply with a short summary.""")
