#!/usr/bin/env python3
"""Print the prompt for a seeding sub-agent: property text + scratch worktree only."""
import json, sys
pid, wt, out = sys.argv[1], sys.argv[2], sys.argv[3]
variant = sys.argv[4] if len(sys.argv) > 4 else ""
p = [json.loads(l) for l in open('/verif/properties.jsonl') if json.loads(l)['id'] == pid][0]
print(f"""You are helping test a verification effort for the Rust project grin-wallet (the reference Grin / Mimblewimble wallet). A scratch git worktree of the project is at {wt} (use only this directory and {out}; do not touch /repo or /verif, and do not read anything under /verif).

Here is a semantic property that the code currently satisfies:

  Title: {p['title']}
  Statement: {p['statement']}
  Scope: {p['quantifier']['text']}

Your task: make ONE small, realistic change to the grin-wallet source in {wt} (the kind of regression a well-meaning developer could introduce: a refactor slip, an off-by-one, a dropped check, a wrong variable, a reordered step, a stale copy) that BREAKS this property, while the code still compiles and the project's existing test suite still passes. {variant}

Requirements for the change:
 - It must need something specific to manifest: a particular input shape or boundary value, a multi-step sequence of operations, a particular interleaving, a crash or fault at a particular point, or two cooperating sites that each look fine alone. Do NOT make a change that ordinary use (e.g. a plain send/receive between two wallets as in the existing tests) would expose at once.
 - Keep it minimal (a few lines). Do not touch tests, Cargo files, or anything named verif / the `verif_hooks` feature.
 - It must compile: check with `cd {wt} && CARGO_NET_OFFLINE=true cargo build --offline -p <crate you touched>` (the sandbox has no network; always pass --offline). Build output goes to {wt}/target; that is fine.
 - The existing tests that exercise the code you touched must still pass. Run the relevant ones, e.g. `cargo test --offline -p grin_wallet_libwallet` and the relevant controller tests such as `cargo test --offline -p grin_wallet_controller --test transaction` (controller tests take a minute or two each; run the ones that cover the area you changed, not necessarily all).

Also write a demonstration: a new Rust integration test file (for example {wt}/controller/tests/seeded_demo.rs, modelled on the existing tests in {wt}/controller/tests which show how to set up a local chain proxy and wallets; or a unit-style test under libwallet if that is enough) that FAILS with your change and PASSES without it. Verify both directions yourself by saving your change with `git diff > {out}/patch.diff` and toggling it with `git apply -R {out}/patch.diff` / `git apply {out}/patch.diff`. NEVER use `git stash`: all worktrees of this repository share one stash and other sessions are working in sibling worktrees.

Deliver, in the directory {out} (create it):
 - patch.diff : `git -C {wt} diff` of the source change ONLY (not the demo test)
 - the demo test file(s), plus demo.md saying exactly where to place them and the command to run them
 - notes.md : which part of the property breaks, what specific circumstances are needed for it to manifest, which existing tests you ran and their result

When done, leave the worktree with your source change reverted (git -C {wt} checkout -- . ; remove the demo file from the worktree), and delete {wt}/target to free disk space. Reply with a short summary (what you changed, what triggers it, files delivered).""")
